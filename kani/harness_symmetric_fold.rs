
// ---- appended by /verif/kani/run_c18.py (never part of /repo) ----
#[cfg(kani)]
mod verif_kani {
    use super::*;

    const N: usize = VERIF_N;

    fn ascending(a: &[u8; N], len: usize) -> bool {
        let mut i = 1;
        while i < len {
            if a[i - 1] >= a[i] {
                return false;
            }
            i += 1;
        }
        true
    }
    fn has(a: &[u8; N], len: usize, x: u8) -> bool {
        let mut i = 0;
        while i < len {
            if a[i] == x {
                return true;
            }
            i += 1;
        }
        false
    }

    /// MergeOnce over two strictly ascending key sequences yields exactly their union, strictly
    /// ascending, every key once.
    #[kani::proof]
    #[kani::unwind(VERIF_UNWIND)]
    fn merge_once_yields_the_union_once_in_order() {
        let a: [u8; N] = kani::any();
        let b: [u8; N] = kani::any();
        let la: usize = kani::any();
        let lb: usize = kani::any();
        kani::assume(la <= N && lb <= N);
        kani::assume(ascending(&a, la) && ascending(&b, lb));
        let mut m = MergeOnce::new(a[..la].iter(), b[..lb].iter());
        let mut prev: Option<u8> = None;
        let mut count = 0usize;
        while let Some(x) = m.next() {
            if let Some(p) = prev {
                assert!(p < *x, "output strictly ascending (no key twice)");
            }
            assert!(has(&a, la, *x) || has(&b, lb, *x), "only keys of the inputs");
            prev = Some(*x);
            count += 1;
        }
        let mut union = la;
        let mut j = 0;
        while j < lb {
            if !has(&a, la, b[j]) {
                union += 1;
            }
            j += 1;
        }
        assert!(count == union, "no key skipped");
        kani::cover!(la == N && lb == N && union < 2 * N, "full-length inputs that share a key");
        kani::cover!(la == 0 && lb == N, "left side empty");
    }

    /// MergeOnceWith pairs equal keys as Both and yields everything else in global key order.
    #[kani::proof]
    #[kani::unwind(VERIF_UNWIND)]
    fn merge_once_with_pairs_equal_keys_and_keeps_order() {
        let a: [u8; N] = kani::any();
        let b: [u8; N] = kani::any();
        let la: usize = kani::any();
        let lb: usize = kani::any();
        kani::assume(la <= N && lb <= N);
        kani::assume(ascending(&a, la) && ascending(&b, lb));
        let mut m = MergeOnceWith::new(a[..la].iter(), b[..lb].iter(), |x: &&u8, y: &&u8| x.cmp(y));
        let mut prev: Option<u8> = None;
        let mut count = 0usize;
        let mut both = 0usize;
        while let Some(e) = m.next() {
            let k = match e {
                MergeElement::Left(x) => {
                    assert!(has(&a, la, *x) && !has(&b, lb, *x), "Left: key only on the left");
                    *x
                }
                MergeElement::Right(y) => {
                    assert!(has(&b, lb, *y) && !has(&a, la, *y), "Right: key only on the right");
                    *y
                }
                MergeElement::Both(x, y) => {
                    assert!(*x == *y, "Both: equal keys");
                    assert!(has(&a, la, *x) && has(&b, lb, *y));
                    both += 1;
                    *x
                }
            };
            if let Some(p) = prev {
                assert!(p < k, "global key order, no key twice");
            }
            prev = Some(k);
            count += 1;
        }
        let mut shared = 0usize;
        let mut j = 0;
        while j < lb {
            if has(&a, la, b[j]) {
                shared += 1;
            }
            j += 1;
        }
        assert!(both == shared, "every shared key is paired");
        assert!(count == la + lb - shared, "no key skipped");
        kani::cover!(la == N && lb == N && shared >= 1, "full-length inputs that share a key");
    }

    /// symmetric_diff of two one-entry BTreeMaps (thorough tier only: slow).
    #[cfg(verif_thorough)]
    #[kani::proof]
    #[kani::unwind(6)]
    fn symmetric_diff_one_plus_one() {
        let (k1, v1, k2, v2): (u8, u8, u8, u8) = (kani::any(), kani::any(), kani::any(), kani::any());
        let mut a = BTreeMap::new();
        a.insert(k1, v1);
        let mut b = BTreeMap::new();
        b.insert(k2, v2);
        let mut n = 0usize;
        let mut prev: Option<u8> = None;
        for (k, d) in a.symmetric_diff(&b) {
            match d {
                DiffElement::Left(v) => assert!(*k == k1 && *v == v1 && k1 != k2),
                DiffElement::Right(v) => assert!(*k == k2 && *v == v2 && k1 != k2),
                DiffElement::Unequal(x, y) => assert!(*k == k1 && k1 == k2 && *x == v1 && *y == v2 && v1 != v2),
            }
            if let Some(p) = prev {
                assert!(p < *k);
            }
            prev = Some(*k);
            n += 1;
        }
        if k1 == k2 {
            assert!(n == if v1 == v2 { 0 } else { 1 });
        } else {
            assert!(n == 2);
        }
        std::mem::forget(a);
        std::mem::forget(b);
    }
}
