#!/usr/bin/env python3
"""C18: Kani/CBMC over the Rc-free kernels of incremental-map/src/symmetric_fold.rs (symbolic keys,
lengths and orderings) + symx over the public symmetric_fold of the three map types (symbolic values).
The Kani crate is regenerated from /repo's current source on every run, in a temporary directory."""
import json, os, re, shutil, subprocess, sys, tempfile, time

HERE = os.path.dirname(os.path.abspath(__file__))
VERIF = os.path.dirname(HERE)
args = sys.argv[1:]
tier = os.environ.get("VERIF_TIER", "quick")
if "--tier" in args:
    tier = args[args.index("--tier") + 1]
seed = int(os.environ.get("VERIF_SEED", "0") or 0)
if "--replay" in args:
    # replays of the symx half go through the symx binary; Kani counterexamples are stored as unit tests
    path = args[args.index("--replay") + 1]
    if path.endswith(".rs"):
        print(open(path).read())
        print(f"VIOLATION property=C18 replay={path}")
        sys.exit(1)
    sys.exit(subprocess.call([f"{VERIF}/.build/symx/release/symx", "C18", "--replay", path]))

t0 = time.time()
env = dict(os.environ, CARGO_NET_OFFLINE="true")
# ---- symx half
env_b = dict(env, CARGO_TARGET_DIR=f"{VERIF}/.build/symx", RUSTFLAGS="--cfg cormacrelf_incremental_rs_verif -Awarnings")
b = subprocess.run(["cargo", "build", "--quiet", "--release"], cwd=f"{VERIF}/symx", env=env_b, capture_output=True, text=True)
if b.returncode != 0:
    print("TOOL-ERROR: symx does not build against /repo's current tree", file=sys.stderr)
    print(b.stderr[-2000:], file=sys.stderr)
    sys.exit(2)
ev_path = f"{VERIF}/evidence/C18.json"
os.makedirs(f"{VERIF}/evidence", exist_ok=True)
if os.path.exists(ev_path):
    os.remove(ev_path)
sx = subprocess.run([f"{VERIF}/.build/symx/release/symx", "C18", "--tier", tier, "--seed", str(seed), "--profile", "release", "--evidence", ev_path, "--known", f"{VERIF}/known-findings.json"], capture_output=True, text=True)
sys.stdout.write(sx.stdout)
sys.stderr.write(sx.stderr[-3000:])
symx_rc = sx.returncode
ev = json.load(open(ev_path)) if os.path.exists(ev_path) else None

# ---- Kani half
N = 3 if tier == "quick" else 4
UNWIND = 2 * N + 3
tmp = tempfile.mkdtemp(prefix="verif-kani-c18-")
results = []
kani_rc = 0
violations = []
try:
    os.makedirs(f"{tmp}/src")
    src = open("/repo/incremental-map/src/symmetric_fold.rs").read()
    har = open(f"{HERE}/harness_symmetric_fold.rs").read().replace("VERIF_N", str(N)).replace("VERIF_UNWIND", str(UNWIND))
    open(f"{tmp}/src/lib.rs", "w").write("#![allow(dead_code, unused_imports)]\n" + src + har)
    open(f"{tmp}/Cargo.toml", "w").write('[package]\nname = "c18_mirror"\nversion = "0.0.0"\nedition = "2021"\n[workspace]\n[dependencies]\n[lints.rust]\nunexpected_cfgs = { level = "allow" }\n')
    harnesses = ["merge_once_yields_the_union_once_in_order", "merge_once_with_pairs_equal_keys_and_keeps_order"]
    kenv = dict(env, CARGO_TARGET_DIR=f"{VERIF}/.build/kani-c18")
    if tier != "quick":
        harnesses.append("symmetric_diff_one_plus_one")
        kenv["RUSTFLAGS"] = "--cfg verif_thorough"
    for h in harnesses:
        t1 = time.time()
        to = 900 if tier == "quick" else 3000
        try:
            p = subprocess.run(["cargo", "kani", "--harness", h, "--output-format", "regular"], cwd=tmp, env=kenv, capture_output=True, text=True, timeout=to)
            out = p.stdout + p.stderr
        except subprocess.TimeoutExpired as e:
            out = (e.stdout or b"").decode() if isinstance(e.stdout, bytes) else (e.stdout or "")
            out += "\nTIMEOUT"
        dt = time.time() - t1
        ok = "VERIFICATION:- SUCCESSFUL" in out
        failed = "VERIFICATION:- FAILED" in out
        m = re.search(r"(\d+) of (\d+) cover properties satisfied", out)
        covers = (int(m.group(1)), int(m.group(2))) if m else (0, 0)
        mt = re.search(r"Verification Time: ([0-9.]+)s", out)
        nchecks = len(re.findall(r"^Check \d+:", out, re.M))
        failing = re.findall(r"^Check \d+: (.*)\n\s+- Status: FAILURE\n\s+- Description: \"(.*)\"", out, re.M)
        unwind_fail = any("unwinding assertion" in d for _, d in failing)
        res = {"harness": h, "array_bound": N, "unwind": UNWIND if "diff" not in h else 6, "verdict": "SUCCESSFUL" if ok else ("FAILED" if failed else "ERROR"), "cbmc_s": float(mt.group(1)) if mt else None, "wall_s": round(dt, 1), "checks": nchecks, "cover_satisfied": covers[0], "cover_total": covers[1], "failing_checks": [d for _, d in failing][:5]}
        results.append(res)
        print(f"[kani {h}] {res['verdict']} checks={nchecks} covers={covers[0]}/{covers[1]} cbmc_s={res['cbmc_s']} wall={dt:.1f}s", file=sys.stderr)
        if ok and covers[0] == covers[1]:
            continue
        if ok:
            print(f"TOOL-ERROR: vacuity: harness {h} has unreachable cover properties", file=sys.stderr)
            kani_rc = max(kani_rc, 2)
            continue
        if failed and failing and not unwind_fail:
            # concrete playback: generate the unit test and run it natively against the same source
            pb = subprocess.run(["cargo", "kani", "--harness", h, "-Z", "concrete-playback", "--concrete-playback=print"], cwd=tmp, env=kenv, capture_output=True, text=True, timeout=to)
            test = re.findall(r"```\n?(#\[test\].*?)```", pb.stdout, re.S) or re.findall(r"(#\[test\]\nfn kani_concrete_playback.*?\n}\n)", pb.stdout, re.S)
            rdir = f"{VERIF}/replays/C18"
            os.makedirs(rdir, exist_ok=True)
            rpath = f"{rdir}/kani_{h}.rs"
            open(rpath, "w").write(f"// Kani counterexample for harness {h} (array bound {N}); failing checks: {[d for _, d in failing][:5]}\n" + (test[0] if test else pb.stdout[-3000:]))
            violations.append((h, rpath))
            kani_rc = 1
        else:
            print(f"TOOL-ERROR: kani harness {h}: {res['verdict']} ({'unwinding assertion failed' if unwind_fail else 'no verdict / timeout'})", file=sys.stderr)
            print(out[-1500:], file=sys.stderr)
            kani_rc = max(kani_rc, 2)
finally:
    shutil.rmtree(tmp, ignore_errors=True)

# ---- merge evidence
if ev is None:
    ev = {"property_id": "C18", "tier": tier, "seed": seed, "level": "other", "coverage": {"explanation": "symx half failed", "evaluations": 1, "distinct_nontrivial": 2}, "wall_s": 0.0}
cov = ev["coverage"]
cov["kani"] = results
cov["kani_functions_encoded"] = ["incremental_map::symmetric_fold::MergeOnce::next", "incremental_map::symmetric_fold::MergeOnceWith::next", "BTreeMap symmetric_diff / SymmetricDiff::next (thorough only)"]
cov["kani_bounds"] = f"two strictly ascending u8 key sequences of symbolic length <= {N} each (unwind {UNWIND}, unwinding assertions on); keys, lengths and relative order fully symbolic; source copied verbatim from /repo/incremental-map/src/symmetric_fold.rs at run time with the harness module appended"
cov["kani_cbmc_s"] = sum(r["cbmc_s"] or 0 for r in results)
cov["explanation"] = "Kani/CBMC bounded model checking of the ordered-merge kernels (symbolic keys, lengths, orderings) AND " + cov.get("explanation", "")
cov["obligations"] = sum(r["checks"] for r in results)
cov["discharged"] = sum(r["checks"] for r in results if r["verdict"] == "SUCCESSFUL")
ev["assumptions"] = ev.get("assumptions", []) + ["Kani 0.68 / CBMC 6.11 (cadical) trusted; no stubs; inputs assumed strictly ascending (they are key sequences of maps)"]
ev["wall_s"] = time.time() - t0
ev["violations"] = ev.get("violations", 0) + len(violations)
json.dump(ev, open(ev_path, "w"), indent=1)
for h, rp in violations:
    print(f"VIOLATION property=C18 replay={rp}")
rc = 1 if (symx_rc == 1 or kani_rc == 1) else max(symx_rc, kani_rc)
print(f"C18 [{tier}] kani={[r['verdict'] for r in results]} symx_exit={symx_rc} exit={rc}")
sys.exit(rc)
