#!/bin/bash
exec python3 "$(dirname "$0")/run_c18.py" "$@"
