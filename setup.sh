#!/bin/bash
# builds the framework offline from files on disk (symx in both profiles)
set -e
HERE="$(cd "$(dirname "$0")" && pwd)"
export CARGO_NET_OFFLINE=true CARGO_TARGET_DIR="$HERE/.build/symx" RUSTFLAGS="--cfg cormacrelf_incremental_rs_verif -Awarnings"
mkdir -p "$HERE/.build" "$HERE/evidence"
cd "$HERE/symx"
cargo build --quiet --release
cargo build --quiet --profile dbg
echo "setup ok"
