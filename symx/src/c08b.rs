//! C08, a program the graph world cannot express: the written variable is itself created by a
//! node function (a bind closure calling `state.var` / `state.var_current_scope`), is written by
//! that closure (deferred writes to a variable that is younger than the running stabilise) and
//! is written from outside afterwards. Program order, invisibility inside the running stabilise,
//! `is_stable()` and the fixed-point loop are checked against a three-line model.
use crate::exec::{app, catch, choose, cover, decide, fresh, op_log, require, violation, Scenario};
use crate::term::{F, SV};
use crate::world::{do_write, model_write, WKind, WKINDS};
use incremental::{IncrState, Var};
use std::cell::RefCell;
use std::mem::ManuallyDrop;
use std::rc::Rc;

const F_INIT: u16 = 104;
const F_M: u16 = 105;

pub struct VarInClosure {
    pub len: usize,
}

#[derive(Default)]
struct Shared {
    /// the variable the closure created last
    slot: Option<Var<SV>>,
    /// (initial value, logical value after the closure's own writes) of that variable
    made: Option<(SV, SV)>,
    closure_runs: u32,
    map_args: Vec<SV>,
}

impl Scenario for VarInClosure {
    fn name(&self) -> String {
        "C08/var_created_in_bind_closure".into()
    }
    fn run(&self) {
        let state = IncrState::new();
        let lhs = state.var(fresh());
        let sh: Rc<RefCell<Shared>> = Rc::new(RefCell::new(Shared::default()));
        // plan, chosen once per path: which constructor, and which writes the closure itself performs
        let current_scope = choose(2) == 1;
        let n_in = choose(3);
        let in_kinds: Vec<WKind> = (0..n_in).map(|_| WKINDS[choose(WKINDS.len())]).collect();
        op_log(format!("Plan(var_current_scope = {current_scope}, writes inside the closure = {in_kinds:?})"));
        let sh2 = sh.clone();
        let kinds2 = in_kinds.clone();
        let b = lhs.binds(move |st, l: &SV| {
            let init = app(F_INIT, &[l.clone()]);
            let v = if current_scope { st.var_current_scope(init.clone()) } else { st.var(init.clone()) };
            let mut logical = init.clone();
            for k in &kinds2 {
                let (saw, fr) = do_write(&v, *k);
                if let Some(o) = saw {
                    let (o2, l2, k2) = (o.clone(), logical.clone(), *k);
                    require("C08/deferred-write-saw-wrong-old-value", F::eq(&o, &logical), move || format!("{k2:?} inside the closure that created the variable showed {o2:?}; program order gives {l2:?}"));
                }
                logical = model_write(&logical, *k, &fr);
                cover("write-inside-the-closure-that-created-the-variable");
            }
            let mut s = sh2.borrow_mut();
            s.slot = Some(v.clone());
            s.made = Some((init, logical));
            s.closure_runs += 1;
            v.watch()
        });
        let sh3 = sh.clone();
        let m = b.map(move |y: &SV| {
            sh3.borrow_mut().map_args.push(y.clone());
            app(F_M, &[y.clone()])
        });
        let o = m.observe();
        let w = ManuallyDrop::new((state, lhs, b, m, o, sh));
        let r = catch(|| {
            let (state, lhs, _b, _m, o, sh) = &*w;
            // model
            // (value the bind's input had at the last stabilise, value it has now): an equal value written
            // again is cut off and the closure must not re-run
            let mut lhs_seen: Option<SV> = None;
            let mut lhs_cur: SV = lhs.get();
            let mut logical: Option<SV> = None; // logical value of the current inner variable
            let mut round = 0;
            let mut stabilise = |lhs_seen: &mut Option<SV>, lhs_cur: &SV, logical: &mut Option<SV>, round: &mut u32| {
                *round += 1;
                let round: u32 = *round;
                op_log("Stabilise".into());
                sh.borrow_mut().map_args.clear();
                let runs_before = sh.borrow().closure_runs;
                state.stabilise();
                let reran = sh.borrow().closure_runs != runs_before;
                let lhs_dirty = match &*lhs_seen {
                    None => true,
                    Some(s) => !decide(F::eq(s, lhs_cur)),
                };
                *lhs_seen = Some(lhs_cur.clone());
                if reran != lhs_dirty {
                    violation("C08/closure-run-count", format!("stabilise #{round}: the bind closure {} although its input was {}", if reran { "ran" } else { "did not run" }, if lhs_dirty { "changed" } else { "not changed" }));
                }
                let shown = if reran {
                    let (init, after) = sh.borrow().made.clone().unwrap();
                    *logical = Some(after.clone());
                    if !init.same(&after) {
                        cover("deferred-write-to-a-variable-younger-than-the-stabilise");
                        // the variable is observed and was written during the stabilise
                        if state.is_stable() {
                            violation("C08/stable-after-deferred-write", format!("the closure wrote the (observed) variable it created during stabilise #{round} but is_stable() is true afterwards"));
                        }
                    }
                    init
                } else {
                    logical.clone().unwrap()
                };
                let want = app(F_M, &[shown.clone()]);
                match o.try_get_value() {
                    Ok(v) => {
                        let (v2, w2) = (v.clone(), want.clone());
                        require("C08/graph-value", F::eq(&v, &want), move || format!("after stabilise #{round} the observer returned {v2:?}; the variable's value when that stabilise started gives {w2:?}"));
                    }
                    Err(e) => violation("C08/observer-error", format!("after stabilise #{round}: {e:?}")),
                }
                for a in sh.borrow().map_args.iter() {
                    let (a2, s2) = (a.clone(), shown.clone());
                    require("C08/deferred-write-visible-in-running-stabilise", F::eq(a, &shown), move || format!("a reader ran on {a2:?} in stabilise #{round}; the pre-stabilise value is {s2:?}"));
                }
            };
            for _ in 0..self.len {
                let have = sh.borrow().slot.is_some();
                let mut n_acts = 2; // Stabilise, WriteLhs
                if have {
                    n_acts += WKINDS.len();
                }
                let k = choose(n_acts);
                match k {
                    0 => stabilise(&mut lhs_seen, &lhs_cur, &mut logical, &mut round),
                    1 => {
                        op_log("WriteLhs".into());
                        lhs_cur = fresh();
                        lhs.set(lhs_cur.clone());
                        if state.is_stable() {
                            violation("C08/stable-after-write", "is_stable() is true after the bind's (observed) input was written".into());
                        }
                    }
                    _ => {
                        let kind = WKINDS[k - 2];
                        op_log(format!("WriteInner({kind:?})"));
                        let v = sh.borrow().slot.clone().unwrap();
                        let cur = logical.clone().unwrap();
                        let (saw, fr) = do_write(&v, kind);
                        if let Some(old) = saw {
                            let (o2, c2) = (old.clone(), cur.clone());
                            require("C08/write-saw-wrong-old-value", F::eq(&old, &cur), move || format!("{kind:?} outside stabilise showed/returned {o2:?}; program order gives {c2:?}"));
                        }
                        let new = model_write(&cur, kind, &fr);
                        let got = v.get();
                        let (g2, n2) = (got.clone(), new.clone());
                        require("C08/get-after-write", F::eq(&got, &new), move || format!("get() after {kind:?} returned {g2:?}, expected {n2:?}"));
                        logical = Some(new);
                        cover("outside-write-to-variable-created-in-closure");
                        // the variable is observed (through the bind) unless the bind's input was written
                        // since, in which case the state is unstable anyway
                        if state.is_stable() {
                            violation("C08/stable-after-write", format!("is_stable() is true after {kind:?} on an observed variable that a bind closure created"));
                        }
                    }
                }
            }
            // `while !is_stable() { stabilise() }` ends with values consistent with the variable
            let mut n = 0;
            while !state.is_stable() {
                n += 1;
                if n > 4 {
                    violation("C08/fixed-point-loop-does-not-end", "is_stable() still false after 4 further stabilises".into());
                    break;
                }
                stabilise(&mut lhs_seen, &lhs_cur, &mut logical, &mut round);
            }
            if round > 0 && n <= 4 {
                let v = sh.borrow().slot.clone().unwrap();
                let want = app(F_M, &[v.get()]);
                match o.try_get_value() {
                    Ok(got) => {
                        let (g2, w2) = (got.clone(), want.clone());
                        require("C08/fixed-point-inconsistent", F::eq(&got, &want), move || format!("`while !is_stable() {{ stabilise() }}` ended with the observer at {g2:?} while the variable holds a value that gives {w2:?}"));
                    }
                    Err(e) => violation("C08/observer-error", format!("after the fixed-point loop: {e:?}")),
                }
                if let Some(l) = &logical {
                    let g = v.get();
                    let (g2, l2) = (g.clone(), l.clone());
                    require("C08/get-after-stabilise", F::eq(&g, l), move || format!("get() after the fixed-point loop returned {g2:?}, writes in program order give {l2:?}"));
                }
            }
        });
        match r {
            Ok(()) => drop(ManuallyDrop::into_inner(w)),
            Err(msg) => {
                if msg.rsplit(" @ ").next().map_or(false, |loc| loc.starts_with("src/")) {
                    panic!("symx: harness panicked: {msg}");
                }
                violation("C08/panic", msg.clone());
                crate::exec::note_panic(msg);
            }
        }
    }
}
