//! C12, hand-written programs that the graph world cannot express: a var of a var (joined through a
//! bind) and an expert-node join. Every permutation of dropping the handles and the state, with
//! stabilises and writes in between; everything must be released one stabilise after the last handle
//! went, and in any case once the state is gone too.
use crate::exec::{app, catch, choose, cover, fresh, op_log, violation, Scenario};
use crate::term::SV;
use crate::world::Guard;
use incremental::expert::{Dependency, Node as ExpertNode};
use incremental::{Incr, IncrState, Var};
use std::any::Any;
use std::cell::{Cell, RefCell};
use std::mem::ManuallyDrop;
use std::rc::Rc;

pub struct Drops {
    pub expert: bool,
    pub len: usize,
}

struct W {
    state: Option<IncrState>,
    things: Vec<(&'static str, Option<Box<dyn Any>>)>,
    probes: Vec<(&'static str, Box<dyn Fn() -> usize>)>,
    guards: Vec<(&'static str, Rc<Cell<u32>>)>,
    inner: Option<Var<SV>>,
}

impl W {
    fn leak_check(&self, when: &str) {
        for (name, p) in &self.probes {
            if p() != 0 {
                violation(&format!("C12/node-not-released/{name}"), format!("{when}: {name} still has strong_count = {}", p()));
            }
        }
        for (name, g) in &self.guards {
            match g.get() {
                1 => {}
                0 => violation(&format!("C12/captured-value-not-released/{name}"), format!("{when}: the value captured by {name} was never dropped")),
                n => violation("C12/captured-value-dropped-twice", format!("{when}: the value captured by {name} was dropped {n} times")),
            }
        }
    }
}

impl Scenario for Drops {
    fn name(&self) -> String {
        if self.expert { "C12/expert_join".into() } else { "C12/var_of_var".into() }
    }
    fn run(&self) {
        let state = IncrState::new();
        let ws = state.weak();
        let mut w = if !self.expert {
            // outer: Var<Var<SV>>; joined = outer.bind(|v| v.watch()); m = joined.map(f)
            let inner = state.var(fresh());
            let inner2 = state.var(fresh());
            let outer: Var<Var<SV>> = state.var(inner.clone());
            let joined = outer.bind(|v: &Var<SV>| v.watch());
            let g = Rc::new(Cell::new(0));
            let guard = Guard(g.clone());
            let m = joined.map(move |x| {
                let _ = &guard;
                app(1, &[x.clone()])
            });
            let o = m.observe();
            let (wi, wo, wj, wm) = (inner.watch().weak(), outer.watch().weak(), joined.weak(), m.weak());
            W {
                state: Some(state),
                probes: vec![("inner-var-node", Box::new(move || wi.strong_count())), ("outer-var-node", Box::new(move || wo.strong_count())), ("bind-node", Box::new(move || wj.strong_count())), ("map-node", Box::new(move || wm.strong_count()))],
                guards: vec![("map-closure", g)],
                things: vec![("outer var handle", Some(Box::new(outer))), ("second inner var handle", Some(Box::new(inner2))), ("bind handle", Some(Box::new(joined))), ("map handle", Some(Box::new(m))), ("observer", Some(Box::new(o)))],
                inner: Some(inner),
            }
        } else {
            // the join of tests/expert.rs: an expert node whose single dependency is switched by a map node
            let inner = state.var(fresh());
            let other = state.var(fresh());
            let outer: Var<Incr<SV>> = state.var(inner.watch());
            let prev: Rc<RefCell<Option<Dependency<SV>>>> = Rc::new(RefCell::new(None));
            let g = Rc::new(Cell::new(0));
            let guard = Guard(g.clone());
            let p2 = prev.clone();
            let join = ExpertNode::<SV>::new(&ws, move || {
                let _ = &guard;
                p2.borrow().clone().unwrap().value_cloned()
            });
            let jw = join.weak();
            let p3 = prev.clone();
            let lhs_change = outer.map(move |rhs: &Incr<SV>| {
                let dep = jw.add_dependency(rhs);
                let mut p = p3.borrow_mut();
                if let Some(old) = p.take() {
                    jw.remove_dependency(old);
                }
                p.replace(dep);
                SV::lit(0)
            });
            join.add_dependency(&lhs_change);
            let joined = join.watch();
            let o = joined.observe();
            let (wi, wo, wj, wl) = (inner.watch().weak(), outer.watch().weak(), joined.weak(), lhs_change.weak());
            drop(prev);
            W {
                state: Some(state),
                probes: vec![("inner-var-node", Box::new(move || wi.strong_count())), ("outer-var-node", Box::new(move || wo.strong_count())), ("expert-node", Box::new(move || wj.strong_count())), ("lhs-change-node", Box::new(move || wl.strong_count()))],
                guards: vec![("expert-recompute-closure", g)],
                things: vec![("outer var handle", Some(Box::new(outer))), ("other var handle", Some(Box::new(other))), ("expert node handle", Some(Box::new(join))), ("lhs-change handle", Some(Box::new(lhs_change))), ("joined handle", Some(Box::new(joined))), ("observer", Some(Box::new(o)))],
                inner: Some(inner),
            }
        };
        let mut w = ManuallyDrop::new(w);
        let r = catch(|| {
            let mut stabilised_since_last_drop = false;
            for _ in 0..self.len {
                #[derive(Clone, Debug)]
                enum A {
                    Drop(usize),
                    DropInner,
                    WriteInner,
                    DropState,
                    Stabilise,
                }
                let mut acts = vec![];
                for (i, t) in w.things.iter().enumerate() {
                    if t.1.is_some() {
                        acts.push(A::Drop(i));
                    }
                }
                if w.inner.is_some() {
                    acts.push(A::DropInner);
                    if w.state.is_some() {
                        acts.push(A::WriteInner);
                    }
                }
                if w.state.is_some() {
                    acts.push(A::DropState);
                    acts.push(A::Stabilise);
                }
                if acts.is_empty() {
                    break;
                }
                let a = acts[choose(acts.len())].clone();
                match &a {
                    A::Drop(i) => op_log(format!("Drop({})", w.things[*i].0)),
                    other => op_log(format!("{other:?}")),
                }
                match a {
                    A::Drop(i) => {
                        let t = w.things[i].1.take();
                        drop(t);
                        stabilised_since_last_drop = false;
                    }
                    A::DropInner => {
                        w.inner = None;
                        stabilised_since_last_drop = false;
                    }
                    A::WriteInner => {
                        w.inner.as_ref().unwrap().set(fresh());
                    }
                    A::DropState => {
                        w.state = None;
                        cover("state-dropped-before-handles");
                    }
                    A::Stabilise => {
                        w.state.as_ref().unwrap().stabilise();
                        stabilised_since_last_drop = true;
                        if w.inner.is_none() && w.things.iter().all(|t| t.1.is_none()) {
                            cover("all-handles-dropped-then-one-stabilise");
                            w.leak_check("one stabilise after the last handle was dropped (state alive)");
                        }
                    }
                }
                let _ = stabilised_since_last_drop;
            }
            // drop whatever is left, then the state
            for t in w.things.iter_mut() {
                t.1 = None;
            }
            w.inner = None;
            w.state = None;
            w.leak_check("after every handle and the state were dropped");
        });
        let ww = ManuallyDrop::into_inner(w);
        match r {
            Ok(()) => drop(ww),
            Err(msg) => {
                std::mem::forget(ww);
                if msg.rsplit(" @ ").next().map_or(false, |l| l.starts_with("src/")) {
                    panic!("symx: harness panicked: {msg}");
                }
                violation(&format!("C12/panic/{}", crate::world::panic_site(&msg)), msg);
            }
        }
    }
}
