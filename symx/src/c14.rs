//! C14: expert nodes with dynamic dependencies.
//!
//! One expert node computes the sum of the values its change callbacks delivered, over its
//! current dependencies. Dependencies are added and removed, as the documentation requires,
//! from the function of one of its children (the "reconcile" node), following a plan that the
//! history edits. Candidate children: a var, a map node, a bind main, and the node the bind's
//! closure builds (invalidated whenever the bind re-runs). Join and bind constructions are
//! the special cases "exactly one dependency, switched by the plan".
use crate::exec::{app, catch, choose, cover, decide_pred, fresh, op_log, require, violation, Scenario};
use crate::term::{F, SV};
use incremental::expert::{Dependency, Node as ExpertNode, WeakNode};
use incremental::{Incr, IncrState, Observer, ObserverError, Var};
use std::cell::{Cell, RefCell};
use std::collections::BTreeMap;
use std::mem::ManuallyDrop;
use std::rc::Rc;

pub struct DynSum {
    pub len: usize,
    pub with_bind: bool,
    /// start from an already observed and stabilised graph (those three actions are not counted)
    pub warm: bool,
    /// warm start with two dependencies already planned and the reconcile node kept needed by its own observer
    pub warm_deps: bool,
    /// warm start, and the dependencies / staleness are also edited from top level between stabilises;
    /// the rest of the alphabet is cut down to what those histories need
    pub outside: bool,
    /// the expert node has an observability callback that reads an observer and (when armed) writes a variable;
    /// a permanently observed reader of that variable logs what it saw (C07 / C08 inside that user function)
    pub cb: bool,
    /// (with warm_deps) x0 has an older dependant, linked before the expert node, that may go away
    pub sibling: bool,
}

const C_VAR: usize = 0;
const C_MAP: usize = 1;
const C_BINDMAIN: usize = 2;
const C_SCOPE: usize = 3;

struct Edge {
    id: usize,
    child: usize,
    /// generation of the scope node this edge points to (C_SCOPE only)
    gen: u32,
    dep: Dependency<SV>,
}

struct Sh {
    plan: RefCell<[u8; 4]>,
    edges: RefCell<Vec<Edge>>,
    next_edge: Cell<usize>,
    cb_vals: RefCell<BTreeMap<usize, SV>>,
    cb_calls: Cell<u32>,
    recomputes: RefCell<Vec<(u32, Vec<(usize, Option<SV>)>)>>,
    round: Cell<u32>,
    scope_gen: Cell<u32>,
    scope_node: RefCell<Option<Incr<SV>>>,
    want_stale: Cell<bool>,
    want_invalidate: Cell<bool>,
    did_stale: Cell<bool>,
    did_invalidate: Cell<bool>,
    reconciles: Cell<u32>,
    /// reconcile adds the new dependencies before removing the old ones (the usual join order)
    add_first: Cell<bool>,
    in_stabilise: Cell<bool>,
    probe: RefCell<Option<Observer<SV>>>,
    cb_calls_obs: Cell<u32>,
    cb_write_armed: Cell<bool>,
    cb_wrote: RefCell<Option<SV>>,
    cb_var: RefCell<Option<Var<SV>>>,
    reader_log: RefCell<Vec<(u32, SV)>>,
}

struct W {
    state: IncrState,
    xs: Vec<(Var<SV>, SV)>,
    selb: (Var<SV>, SV),
    ctl: (Var<SV>, SV),
    children: Vec<Incr<SV>>,
    expert: ExpertNode<SV>,
    top: Incr<SV>,
    obs: Option<Observer<SV>>,
    obs_in_use: bool,
    keep_child_obs: Option<Observer<SV>>,
    sh: Rc<Sh>,
    dirty: bool,
    invalidated: bool,
    with_bind: bool,
    kept_once: bool,
    reconcile_node: Incr<SV>,
    keep_reconcile_obs: Option<Observer<SV>>,
    /// observer on a map over x0 that was attached to x0 before the expert node was (an older dependant of a shared child)
    sibling_obs: Option<Observer<SV>>,
}

impl W {
    fn child_value(&self, c: usize) -> SV {
        match c {
            C_VAR => self.xs[0].1.clone(),
            C_MAP => app(1, &[self.xs[1].1.clone()]),
            C_BINDMAIN | C_SCOPE => {
                // bind: if p(selb) then x2.map(g)(built in the closure, capturing selb) else x2
                if decide_pred(0, &[self.selb.1.clone()]) {
                    app(2, &[self.selb.1.clone(), self.xs[2].1.clone()])
                } else {
                    self.xs[2].1.clone()
                }
            }
            _ => unreachable!(),
        }
    }
    fn reference(&self) -> SV {
        let mut acc = SV::lit(0);
        for e in self.sh.edges.borrow().iter() {
            acc = acc.add(&self.child_value(e.child));
        }
        acc
    }
}

fn remove_phase(sh: &Rc<Sh>, expert: &WeakNode<SV>) {
    let plan = *sh.plan.borrow();
    // drop dependencies on scope nodes of an earlier run of the bind closure, and surplus ones
    loop {
        let victim = {
            let edges = sh.edges.borrow();
            let mut count = [0u8; 4];
            let mut v = None;
            for (i, e) in edges.iter().enumerate() {
                if e.child == C_SCOPE && e.gen != sh.scope_gen.get() {
                    v = Some(i);
                    cover("dependency-on-invalidated-child-removed");
                    if i + 1 < edges.len() {
                        cover("removed-dependency-on-invalidated-child-was-not-the-last-edge");
                    }
                    break;
                }
                count[e.child] += 1;
                if count[e.child] > plan[e.child] {
                    v = Some(i);
                    break;
                }
            }
            v
        };
        let Some(i) = victim else { break };
        let e = sh.edges.borrow_mut().remove(i);
        sh.cb_vals.borrow_mut().remove(&e.id);
        if sh.edges.borrow().iter().any(|o| o.child == e.child) {
            cover("one-of-two-dependencies-on-the-same-child-removed");
        }
        expert.remove_dependency(e.dep);
    }
}

fn add_phase(sh: &Rc<Sh>, expert: &WeakNode<SV>, children: &[Incr<SV>]) {
    let plan = *sh.plan.borrow();
    for c in 0..4 {
        loop {
            let have = sh.edges.borrow().iter().filter(|e| e.child == c && (c != C_SCOPE || e.gen == sh.scope_gen.get())).count() as u8;
            if have >= plan[c] {
                break;
            }
            let node = if c == C_SCOPE {
                match sh.scope_node.borrow().clone() {
                    Some(n) => n,
                    None => break,
                }
            } else {
                children[c].clone()
            };
            let id = sh.next_edge.get();
            sh.next_edge.set(id + 1);
            let sh2 = sh.clone();
            let dep = expert.add_dependency_with(&node, move |v: &SV| {
                sh2.cb_calls.set(sh2.cb_calls.get() + 1);
                sh2.cb_vals.borrow_mut().insert(id, v.clone());
            });
            if have >= 1 {
                cover("duplicate-dependency-on-one-child");
            }
            sh.edges.borrow_mut().push(Edge { id, child: c, gen: sh.scope_gen.get(), dep });
        }
    }
}

fn reconcile(sh: &Rc<Sh>, expert: &WeakNode<SV>, children: &[Incr<SV>]) {
    sh.reconciles.set(sh.reconciles.get() + 1);
    if sh.add_first.get() {
        add_phase(sh, expert, children);
        remove_phase(sh, expert);
    } else {
        remove_phase(sh, expert);
        add_phase(sh, expert, children);
    }
    if sh.want_stale.replace(false) {
        expert.make_stale();
        sh.did_stale.set(true);
        cover("make_stale");
    }
    if sh.want_invalidate.replace(false) {
        expert.invalidate();
        sh.did_invalidate.set(true);
        cover("invalidate");
    }
}

impl Scenario for DynSum {
    fn name(&self) -> String {
        format!("C14/dynamic_sum{}{}{}", if self.with_bind { "_with_bind_children" } else { "" }, if self.warm { "_warm" } else { "" }, if self.warm_deps { "_deps" } else { "" }) + if self.cb { "_observability_callback" } else { "" } + if self.sibling { "_older_sibling" } else { "" } + if self.outside { "_edited_between_stabilises" } else { "" }
    }
    fn run(&self) {
        let state = IncrState::new();
        let xs: Vec<(Var<SV>, SV)> = (0..3)
            .map(|_| {
                let x = fresh();
                (state.var(x.clone()), x)
            })
            .collect();
        let s0 = fresh();
        let selb = (state.var(s0.clone()), s0);
        let c0 = fresh();
        let ctl = (state.var(c0.clone()), c0);
        let sh = Rc::new(Sh {
            plan: RefCell::new([0; 4]),
            edges: RefCell::new(vec![]),
            next_edge: Cell::new(0),
            cb_vals: RefCell::new(BTreeMap::new()),
            cb_calls: Cell::new(0),
            recomputes: RefCell::new(vec![]),
            round: Cell::new(0),
            scope_gen: Cell::new(0),
            scope_node: RefCell::new(None),
            want_stale: Cell::new(false),
            want_invalidate: Cell::new(false),
            did_stale: Cell::new(false),
            did_invalidate: Cell::new(false),
            reconciles: Cell::new(0),
            add_first: Cell::new(false),
            in_stabilise: Cell::new(false),
            probe: RefCell::new(None),
            cb_calls_obs: Cell::new(0),
            cb_write_armed: Cell::new(false),
            cb_wrote: RefCell::new(None),
            cb_var: RefCell::new(None),
            reader_log: RefCell::new(vec![]),
        });
        let x2w = xs[2].0.watch();
        let sh_b = sh.clone();
        let bmain = selb.0.bind(move |s: &SV| {
            sh_b.scope_gen.set(sh_b.scope_gen.get() + 1);
            if decide_pred(0, &[s.clone()]) {
                let cap = s.clone();
                let n = x2w.map(move |y| app(2, &[cap.clone(), y.clone()]));
                *sh_b.scope_node.borrow_mut() = Some(n.clone());
                n
            } else {
                *sh_b.scope_node.borrow_mut() = None;
                x2w.clone()
            }
        });
        let children: Vec<Incr<SV>> = vec![xs[0].0.watch(), xs[1].0.map(|x| app(1, &[x.clone()])), bmain.clone()];
        // the expert node: sum of what the callbacks of its current dependencies delivered
        let sh_e = sh.clone();
        let sh_o = sh.clone();
        let expert = ExpertNode::<SV>::new_(
            &state.weak(),
            move || {
                let mut acc = SV::lit(0);
                let mut snap = vec![];
                for e in sh_e.edges.borrow().iter() {
                    let v = sh_e.cb_vals.borrow().get(&e.id).cloned();
                    snap.push((e.id, v.clone()));
                    acc = acc.add(&v.unwrap_or_else(|| SV::lit(-777_777)));
                }
                sh_e.recomputes.borrow_mut().push((sh_e.round.get(), snap));
                acc
            },
            move |now_observable: bool| {
                // a user function the engine calls while it links / unlinks observers inside stabilise
                sh_o.cb_calls_obs.set(sh_o.cb_calls_obs.get() + 1);
                if !sh_o.in_stabilise.get() {
                    return;
                }
                cover("observability-callback-inside-stabilise");
                if let Some(p) = sh_o.probe.borrow().as_ref() {
                    let got = p.try_get_value();
                    if got != Err(ObserverError::CurrentlyStabilising) {
                        violation("C07/observer-readable-inside-stabilise", format!("an observer read from the expert node's observability callback (now_observable = {now_observable}) during stabilise #{} returned {got:?}, not CurrentlyStabilising", sh_o.round.get()));
                    } else {
                        cover("observer-read-inside-observability-callback");
                    }
                }
                if sh_o.cb_write_armed.replace(false) {
                    if let Some(v) = sh_o.cb_var.borrow().as_ref() {
                        let nv = fresh();
                        v.set(nv.clone());
                        *sh_o.cb_wrote.borrow_mut() = Some(nv);
                        cover("variable-written-inside-observability-callback");
                    }
                }
            },
        );
        // the child whose function edits the dependencies; it runs after the bind when the bind re-runs
        let weak = expert.weak();
        let sh_r = sh.clone();
        let kids = children.clone();
        let with_bind = self.with_bind;
        let reconcile_node: Incr<SV> = if with_bind {
            ctl.0.map3(&selb.0.watch(), &bmain, move |_, _, _| {
                reconcile(&sh_r, &weak, &kids);
                SV::lit(0)
            })
        } else {
            ctl.0.map(move |_| {
                reconcile(&sh_r, &weak, &kids);
                SV::lit(0)
            })
        };
        expert.add_dependency(&reconcile_node);
        let top = expert.watch().map(|x| app(5, &[x.clone()]));
        let mut w = ManuallyDrop::new(W { state, xs, selb, ctl, children, expert, top, obs: None, obs_in_use: false, keep_child_obs: None, sh, dirty: false, invalidated: false, with_bind, kept_once: false, reconcile_node: reconcile_node.clone(), keep_reconcile_obs: None, sibling_obs: None });
        let warm = self.warm;
        let r = catch(|| {
            w.sh.add_first.set(choose(2) == 1);
            op_log(format!("reconcile order: {}", if w.sh.add_first.get() { "add then remove" } else { "remove then add" }));
            let mut cb_keep: Vec<Observer<SV>> = vec![];
            if self.cb {
                // probe: an observer on an unrelated variable; reader: a permanently observed map over x0 that logs what it saw
                let pv = w.state.var(fresh());
                let po = pv.observe();
                *w.sh.probe.borrow_mut() = Some(po);
                std::mem::forget(pv);
                *w.sh.cb_var.borrow_mut() = Some(w.xs[0].0.clone());
                let sh_rd = w.sh.clone();
                let rd = w.xs[0].0.map(move |x: &SV| {
                    sh_rd.reader_log.borrow_mut().push((sh_rd.round.get(), x.clone()));
                    SV::lit(0)
                });
                cb_keep.push(rd.observe());
                w.sh.plan.borrow_mut()[C_VAR] = 1;
            }
            if self.warm_deps {
                // an older dependant of x0: it is linked to x0 before the expert node is, and may go away later
                if self.sibling {
                    let sib = w.xs[0].0.map(|_| SV::lit(0));
                    w.sibling_obs = Some(sib.observe());
                }
                w.sh.plan.borrow_mut()[C_VAR] = 1;
                w.sh.plan.borrow_mut()[C_MAP] = 1;
                w.keep_reconcile_obs = Some(w.reconcile_node.observe());
            }
            if warm {
                w.keep_child_obs = Some(w.children[C_MAP].observe());
                w.obs = Some(w.top.observe());
                w.sh.round.set(1);
                w.sh.in_stabilise.set(true);
                w.state.stabilise();
                w.sh.in_stabilise.set(false);
                w.sh.reader_log.borrow_mut().clear();
                w.obs_in_use = true;
                op_log("(warm start: KeepChild, Observe, Stabilise)".into());
            }
            let mut stale_outside_done = false;
            let mut reconcile_outside_done = false;
            // (only in the plain warm variant, to keep the other variants' trees as they were)
            let stale_outside_allowed = self.outside;
            for _ in 0..self.len {
                #[derive(Debug, Clone)]
                enum A {
                    KeepReconcile,
                    DropKeepChild,
                    Plan(usize, u8),
                    WriteCtl,
                    WriteX(usize),
                    WriteSelB,
                    Observe,
                    Unobserve,
                    KeepChild,
                    AskStale,
                    AskInvalidate,
                    StaleOutside,
                    ReconcileOutside,
                    DropSibling,
                    ArmCbWrite,
                    Stabilise,
                }
                let mut acts = vec![];
                let plan = *w.sh.plan.borrow();
                let nchild = if w.with_bind { 4 } else { 2 };
                for c in 0..nchild {
                    let max = if c == C_VAR || c == C_MAP || c == C_SCOPE { 2 } else { 1 };
                    for m in 0..=max {
                        if m != plan[c] {
                            acts.push(A::Plan(c, m));
                        }
                    }
                }
                if self.cb {
                    acts.retain(|a| matches!(a, A::Plan(c, m) if *c == C_VAR && *m <= 1));
                    acts.push(A::WriteX(0));
                    if !w.sh.cb_write_armed.get() {
                        acts.push(A::ArmCbWrite);
                    }
                } else if self.outside {
                    acts.retain(|a| matches!(a, A::Plan(c, _) if *c == C_MAP));
                    acts.push(A::WriteX(1));
                } else {
                    acts.push(A::WriteCtl);
                    acts.push(A::WriteX(0));
                    acts.push(A::WriteX(1));
                }
                if w.with_bind {
                    acts.push(A::WriteX(2));
                    acts.push(A::WriteSelB);
                }
                if w.obs.is_none() {
                    acts.push(A::Observe);
                } else {
                    acts.push(A::Unobserve);
                }
                if self.outside || self.cb {
                } else if w.keep_child_obs.is_none() {
                    if !w.kept_once {
                        acts.push(A::KeepChild);
                    }
                } else {
                    acts.push(A::DropKeepChild);
                }
                if w.keep_reconcile_obs.is_none() && !self.outside && !self.cb {
                    acts.push(A::KeepReconcile);
                }
                if !w.sh.want_stale.get() && !w.sh.did_stale.get() && !self.outside && !self.cb {
                    acts.push(A::AskStale);
                }
                if !w.sh.want_invalidate.get() && !w.sh.did_invalidate.get() && !self.outside && !self.cb {
                    acts.push(A::AskInvalidate);
                }
                if stale_outside_allowed && !stale_outside_done && !w.invalidated && w.obs.is_some() && w.obs_in_use {
                    // make_stale() called between two stabilises, on an expert node that is needed right now
                    acts.push(A::StaleOutside);
                }
                if stale_outside_allowed && !reconcile_outside_done && !w.invalidated {
                    // the dependencies are brought in line with the plan from top level, between two stabilises
                    acts.push(A::ReconcileOutside);
                }
                if w.sibling_obs.is_some() {
                    acts.push(A::DropSibling);
                }
                if w.dirty {
                    acts.push(A::Stabilise);
                }
                let a = acts[choose(acts.len())].clone();
                op_log(format!("{a:?}"));
                let is_stab = matches!(a, A::Stabilise);
                match a {
                    A::Plan(c, m) => {
                        w.sh.plan.borrow_mut()[c] = m;
                    }
                    A::WriteCtl => {
                        let x = fresh();
                        w.ctl.0.set(x.clone());
                        w.ctl.1 = x;
                        w.dirty = true;
                    }
                    A::WriteX(i) => {
                        let x = fresh();
                        w.xs[i].0.set(x.clone());
                        w.xs[i].1 = x;
                        w.dirty = true;
                    }
                    A::WriteSelB => {
                        let x = fresh();
                        w.selb.0.set(x.clone());
                        w.selb.1 = x;
                        w.dirty = true;
                    }
                    A::Observe => {
                        w.obs = Some(w.top.observe());
                        w.obs_in_use = false;
                        w.dirty = true;
                    }
                    A::Unobserve => {
                        w.obs = None;
                        w.dirty = true;
                        cover("expert-unobserved");
                    }
                    A::KeepReconcile => {
                        // the child that edits the dependencies stays needed without the expert node:
                        // dependencies are then added and removed while the expert node is unobserved
                        w.keep_reconcile_obs = Some(w.reconcile_node.observe());
                        w.dirty = true;
                        cover("reconcile-node-kept-needed-by-another-observer");
                    }
                    A::DropKeepChild => {
                        w.keep_child_obs = None;
                        w.kept_once = true;
                        w.dirty = true;
                        cover("computed-child-became-unnecessary");
                    }
                    A::KeepChild => {
                        // a child shared with another consumer stays necessary without the expert node
                        w.keep_child_obs = Some(w.children[C_MAP].observe());
                        w.dirty = true;
                    }
                    A::DropSibling => {
                        w.sibling_obs = None;
                        w.dirty = true;
                        cover("older-dependant-of-a-shared-child-went-away");
                    }
                    A::ArmCbWrite => {
                        w.sh.cb_write_armed.set(true);
                    }
                    A::AskStale => {
                        w.sh.want_stale.set(true);
                    }
                    A::AskInvalidate => {
                        w.sh.want_invalidate.set(true);
                    }
                    A::ReconcileOutside => {
                        reconcile(&w.sh, &w.expert.weak(), &w.children);
                        reconcile_outside_done = true;
                        w.dirty = true;
                        cover("dependencies-edited-between-stabilises");
                    }
                    A::StaleOutside => {
                        w.expert.make_stale();
                        stale_outside_done = true;
                        w.dirty = true;
                        cover("make_stale-between-stabilises");
                    }
                    A::Stabilise => {
                        w.sh.round.set(w.sh.round.get() + 1);
                        let round = w.sh.round.get();
                        let rec_before = w.sh.recomputes.borrow().len();
                        let stale_before = w.sh.did_stale.get();
                        let obs_at_call = w.obs.as_ref().map(|_| ());
                        let x0_at_call = w.xs[0].1.clone();
                        w.sh.in_stabilise.set(true);
                        w.state.stabilise();
                        w.sh.in_stabilise.set(false);
                        w.dirty = false;
                        if self.cb {
                            // every reader of x0 in this stabilise saw the value x0 had when stabilise was called
                            for (r, seen) in w.sh.reader_log.borrow_mut().drain(..) {
                                let (s2, x2) = (seen.clone(), x0_at_call.clone());
                                require("C08/reader-saw-write-made-during-stabilise", F::eq(&seen, &x0_at_call), move || format!("stabilise #{r}: a reader of the variable ran on {s2:?}; the variable held {x2:?} when stabilise was called (a write made from the observability callback must be deferred)"));
                            }
                        }
                        if w.obs.is_some() {
                            if !w.obs_in_use && rec_before > 0 {
                                cover("expert-observed-again");
                            }
                            w.obs_in_use = true;
                        }
                        if w.sh.did_invalidate.get() {
                            w.invalidated = true;
                        }
                        let recs: Vec<(u32, Vec<(usize, Option<SV>)>)> = w.sh.recomputes.borrow()[rec_before..].to_vec();
                        if obs_at_call.is_none() && !recs.is_empty() {
                            cover("stabilise-with-expert-unobserved");
                            violation("C05/expert-node-ran-without-observer", format!("stabilise #{round}: the expert node's function ran although nothing observed it (or its only dependant) when stabilise was called"));
                        }
                        if recs.len() > 1 {
                            violation("C14/recomputed-twice-in-one-stabilise", format!("the expert node ran {} times in stabilise #{round}", recs.len()));
                        }
                        if !stale_before && w.sh.did_stale.get() && recs.is_empty() && !w.invalidated && w.obs.is_some() {
                            violation("C14/make_stale-did-not-recompute", format!("make_stale was called in stabilise #{round} but the expert node did not run"));
                        }
                        // at its recompute, every dependency's callback had delivered the child's current value
                        if let Some((_, snap)) = recs.last() {
                            let edges = w.sh.edges.borrow();
                            for (id, v) in snap {
                                let Some(e) = edges.iter().find(|e| e.id == *id) else { continue };
                                let want = w.child_value(e.child);
                                match v {
                                    None => violation("C14/callback-never-delivered", format!("stabilise #{round}: the expert node ran although the change callback of dependency #{id} (child {}) had never been invoked", e.child)),
                                    Some(v) => {
                                        let (v2, w2, c) = (v.clone(), want.clone(), e.child);
                                        require("C14/callback-value-stale", F::eq(v, &want), move || format!("at the expert node's recompute the last callback of dependency #{id} (child {c}) had delivered {v2:?}; the child holds {w2:?}"));
                                    }
                                }
                            }
                        }
                        // value
                        if let Some(o) = &w.obs {
                            let got = o.try_get_value();
                            if w.invalidated {
                                if got != Err(ObserverError::ObservingInvalid) {
                                    violation("C14/dependant-valid-after-invalidate", format!("invalidate() was called on the expert node, its dependant returned {got:?}"));
                                }
                            } else {
                                match got {
                                    Ok(v) => {
                                        let want = app(5, &[w.reference()]);
                                        let (v2, w2) = (v.clone(), want.clone());
                                        require("C14/value", F::eq(&v, &want), move || format!("dependant of the expert node returned {v2:?}, the reference sum gives {w2:?}"));
                                    }
                                    Err(ObserverError::ObservingInvalid) => violation("C14/spuriously-invalid", format!("stabilise #{round}: the expert node (or its dependant) is invalid although invalidate() was never called and no current dependency is on an invalid child")),
                                    Err(e) => violation("C14/unreadable", format!("{e:?}")),
                                }
                            }
                        }
                    }
                }
                let mut settled = is_stab;
                if is_stab {
                    let wrote = w.sh.cb_wrote.borrow_mut().take();
                    if let Some(nv) = wrote {
                        // a write deferred to the end of the stabilise leaves the variable pending
                        settled = false;
                        // the deferred write takes effect now: the variable is observed, so the state is not stable
                        let got = w.xs[0].0.get();
                        let (g2, n2) = (got.clone(), nv.clone());
                        require("C08/get-after-stabilise", F::eq(&got, &nv), move || format!("get() after the stabilise in which the observability callback wrote {n2:?} returned {g2:?}"));
                        if w.state.is_stable() {
                            violation("C08/stable-after-deferred-write", "is_stable() is true right after a stabilise in which an observed variable was written from a user function".to_string());
                        }
                        w.xs[0].1 = nv;
                        w.dirty = true;
                    }
                }
                crate::world::audit_state(&w.state, settled);
            }
            *w.sh.probe.borrow_mut() = None;
            *w.sh.cb_var.borrow_mut() = None;
            drop(cb_keep);
        });
        let ww = ManuallyDrop::into_inner(w);
        match r {
            Ok(()) => {
                if let Err(msg) = catch(move || drop(ww)) {
                    violation("C14/panic-in-drop", msg);
                }
            }
            Err(msg) => {
                std::mem::forget(ww);
                if msg.rsplit(" @ ").next().map_or(false, |l| l.starts_with("src/")) {
                    panic!("symx: harness panicked: {msg}");
                }
                violation(&format!("C14/panic/{}", crate::world::panic_site(&msg)), msg);
            }
        }
    }
}
