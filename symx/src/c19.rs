//! C19: misuse and limits panic with a diagnostic; the height limit is exact.
//! Configuration integers (N, M, chain heights, where the reconfiguration happens) are forked
//! through `choose`; values are symbolic so that accepted graphs are also checked for their
//! value (validity query), not only for the absence of a panic.
use crate::exec::{app, catch, choose, cover, fresh, op_log, require, violation, Scenario};
use crate::term::{F, SV};
use incremental::{Incr, IncrState, Observer, WeakState};
use std::cell::{Cell, RefCell};
use std::mem::ManuallyDrop;
use std::rc::Rc;

pub struct HeightLimit {
    pub max_n: usize,
}

/// var -> map -> ... (k maps). The engine numbers heights from 1 (a var or constant at top
/// level has height 1, `Scope::Top` counting as 0), so this node has height k + 1.
fn chain(base: &Incr<SV>, k: usize, fbase: u16) -> (Incr<SV>, Box<dyn Fn(&SV) -> SV>) {
    let mut n = base.clone();
    for i in 0..k {
        let f = fbase + (i as u16 % 8);
        n = n.map(move |x| app(f, &[x.clone()]));
    }
    let kk = k;
    (
        n,
        Box::new(move |x: &SV| {
            let mut v = x.clone();
            for i in 0..kk {
                v = app(fbase + (i as u16 % 8), &[v]);
            }
            v
        }),
    )
}

fn expect_height_panic(what: &str, r: Result<(), String>) {
    match r {
        Ok(()) => violation(&format!("C19/too-tall-graph-accepted/{what}"), format!("{what}: a graph taller than the configured limit stabilised without a panic")),
        Err(msg) => {
            if !msg.to_lowercase().contains("height") {
                violation(&format!("C19/height-panic-without-diagnostic/{what}"), format!("{what}: panic does not name the height limit: {msg}"));
            }
        }
    }
}

struct Keep {
    state: IncrState,
    things: Vec<Box<dyn std::any::Any>>,
}

impl Scenario for HeightLimit {
    fn name(&self) -> String {
        "C19/height_limit".into()
    }
    fn run(&self) {
        // N in 1..=max_n ; the graph: a chain of height k in {N-1, N, N+1}, or through a bind
        let n = 1 + choose(self.max_n);
        op_log(format!("new_with_height({n})"));
        let mut keep = ManuallyDrop::new(Keep { state: IncrState::new_with_height(n), things: vec![] });
        let r = catch(|| {
            let st = keep.state.clone();
            let x0 = fresh();
            let v = st.var(x0.clone());
            let shape = choose(3);
            // shape 0: plain chain; shape 1: chain ending in a bind (main sits 2 above its lhs);
            // shape 2: a two-input node whose first input is the chain and whose second input is a
            // variable that nothing else needs (a rejection inside the chain leaves it half linked)
            let side = st.var(fresh());
            let side_v = side.get();
            let delta = choose(3); // wanted top height = n - 1 + delta
            let want = n + delta - 1;
            let build = |want: usize, v: &Incr<SV>| -> Option<(Incr<SV>, Box<dyn Fn(&SV) -> SV>)> {
                if want < 1 {
                    return None;
                }
                if shape == 0 {
                    Some(chain(v, want - 1, 0))
                } else if shape == 2 {
                    // here `want` is the height of the chain; the two-input node sits one above it, so that
                    // with delta = 2 it is the chain itself that is rejected while the node is being linked
                    let (c, ev) = chain(v, want - 1, 0);
                    let top = c.map2(&side.watch(), |a, b| app(90, &[a.clone(), b.clone()]));
                    let y = side_v.clone();
                    cover("two-input-node-over-the-chain");
                    Some((top, Box::new(move |x: &SV| app(90, &[ev(x), y.clone()]))))
                } else {
                    if want < 3 {
                        return None;
                    }
                    let (c, ev) = chain(v, want - 3, 0);
                    let tail = v.clone();
                    let b = c.bind(move |_| tail.clone());
                    let _ = ev;
                    Some((b, Box::new(|x: &SV| x.clone())))
                }
            };
            let Some((top, eval)) = build(want, &v.watch()) else { return };
            let want = if shape == 2 { want + 1 } else { want };
            op_log(format!("shape {shape}: top height {want} (limit {n})"));
            let o = top.observe();
            let r = catch(|| st.stabilise());
            if want <= n {
                cover("graph-at-or-below-limit");
                match r {
                    Err(msg) => violation("C19/legal-height-rejected", format!("limit {n}, height {want}: {msg}")),
                    Ok(()) => match o.try_get_value() {
                        Ok(val) => {
                            let w = eval(&x0);
                            let (v2, w2) = (val.clone(), w.clone());
                            require("C19/value-at-height-limit", F::eq(&val, &w), move || format!("observer returned {v2:?}, expected {w2:?}"));
                        }
                        Err(e) => violation("C19/no-value-at-legal-height", format!("{e:?}")),
                    },
                }
            } else {
                cover("graph-above-limit");
                expect_height_panic("new_with_height", r);
                keep.things.push(Box::new(o));
                keep.things.push(Box::new(v));
                return;
            }
            // an illegal shrink (below the greatest height in use) must be refused, or at least must not
            // leave the taller graph computing
            if want >= 2 && choose(4) == 0 {
                let m = want - 1;
                op_log(format!("set_max_height_allowed({m}) although height {want} is in use"));
                cover("shrink-below-height-in-use");
                let r = catch(|| st.set_max_height_allowed(m));
                if r.is_err() {
                    // a refused reconfiguration changes nothing: the configured limit n still holds exactly
                    cover("refused-shrink-then-graph-at-the-old-limit");
                    let x1 = fresh();
                    v.set(x1.clone());
                    let (top2, eval2) = chain(&v.watch(), n - 1, 8);
                    let o2 = top2.observe();
                    match catch(|| st.stabilise()) {
                        Err(msg) => violation("C19/legal-height-rejected/after-refused-shrink", format!("limit {n} (a shrink to {m} was refused), new chain of height {n}: {msg}")),
                        Ok(()) => {
                            if let Ok(val) = o2.try_get_value() {
                                let w = eval2(&x1);
                                let (v2, w2) = (val.clone(), w.clone());
                                require("C19/value-after-refused-shrink", F::eq(&val, &w), move || format!("observer returned {v2:?}, expected {w2:?}"));
                            }
                        }
                    }
                    keep.things.push(Box::new(o2));
                }
                if r.is_ok() {
                    v.set(fresh());
                    let r2 = catch(|| st.stabilise());
                    match r2 {
                        Ok(()) => violation("C19/too-tall-graph-accepted/after-shrink-below-height-in-use", format!("set_max_height_allowed({m}) was accepted with height {want} in use and the graph still stabilises")),
                        Err(msg) => {
                            if !msg.to_lowercase().contains("height") {
                                violation("C19/height-panic-without-diagnostic/after-illegal-shrink", msg);
                            }
                        }
                    }
                }
                keep.things.push(Box::new(o));
                keep.things.push(Box::new(v));
                return;
            }
            // reconfigure at a quiescent point: M >= greatest height in use
            let m = want.max(1) + choose(3); // want, want+1, want+2 (may shrink or grow relative to n)
            op_log(format!("set_max_height_allowed({m}) with greatest height in use {want}"));
            if m < n {
                cover("limit-shrunk");
            } else if m > n {
                cover("limit-grown");
            }
            // the reconfiguration may happen with work pending (a write not yet propagated)
            let pending_write = choose(2) == 1;
            let x_early = fresh();
            if pending_write {
                v.set(x_early.clone());
                cover("reconfigured-with-pending-work");
                op_log("(a write is pending during the reconfiguration)".into());
            }
            let r = catch(|| st.set_max_height_allowed(m));
            if let Err(msg) = r {
                violation("C19/legal-reconfiguration-rejected", format!("set_max_height_allowed({m}) with greatest height {want} in use (was {n}): {msg}"));
                keep.things.push(Box::new(o));
                keep.things.push(Box::new(v));
                return;
            }
            // the engine's bookkeeping after a reconfiguration (C11: pending work is still queued, nothing else is)
            crate::world::audit_state(&st, false);
            // the old graph still works
            let x1 = if pending_write { x_early } else { fresh() };
            if !pending_write {
                v.set(x1.clone());
            }
            match catch(|| st.stabilise()) {
                Err(msg) => violation("C19/stabilise-panics-after-reconfiguration", msg),
                Ok(()) => {
                    crate::world::audit_state(&st, true);
                    if let Ok(val) = o.try_get_value() {
                        let w = eval(&x1);
                        let (v2, w2) = (val.clone(), w.clone());
                        require("C19/value-after-reconfiguration", F::eq(&val, &w), move || format!("observer returned {v2:?}, expected {w2:?}"));
                    }
                }
            }
            // optionally a second reconfiguration, back to the limit the state was created with
            let m = if m != n && choose(2) == 1 {
                op_log(format!("set_max_height_allowed({n}) again (the limit the state was created with)"));
                cover("limit-changed-and-changed-back");
                if let Err(msg) = catch(|| st.set_max_height_allowed(n)) {
                    violation("C19/legal-reconfiguration-rejected", format!("set_max_height_allowed({n}) with greatest height {want} in use (was {m}): {msg}"));
                    keep.things.push(Box::new(o));
                    keep.things.push(Box::new(v));
                    return;
                }
                n
            } else {
                m
            };
            // now a second graph of height m (accepted) or m + 1 (rejected)
            let over = choose(2);
            let want2 = m + over;
            let (top2, eval2) = chain(&v.watch(), want2 - 1, 8);
            let o2 = top2.observe();
            op_log(format!("second chain of height {want2} (limit now {m})"));
            let r = catch(|| st.stabilise());
            if over == 0 {
                match r {
                    Err(msg) => violation("C19/legal-height-rejected-after-reconfiguration", format!("limit {m}, height {want2}: {msg}")),
                    Ok(()) => match o2.try_get_value() {
                        Ok(val) => {
                            let w = eval2(&x1);
                            let (v2, w2) = (val.clone(), w.clone());
                            require("C19/value-at-new-limit", F::eq(&val, &w), move || format!("observer returned {v2:?}, expected {w2:?}"));
                        }
                        Err(e) => violation("C19/no-value-at-new-limit", format!("{e:?}")),
                    },
                }
            } else {
                expect_height_panic("set_max_height_allowed", r);
            }
            keep.things.push(Box::new(o2));
            keep.things.push(Box::new(o));
            keep.things.push(Box::new(v));
        });
        if let Err(msg) = r {
            violation("C19/unexpected-panic", msg);
            return;
        }
        // handles and state can still be dropped
        let k = ManuallyDrop::into_inner(keep);
        if let Err(msg) = catch(move || drop(k)) {
            violation("C19/panic-while-dropping-after-limit-panic", msg);
        }
    }
}

pub struct Misuse;

impl Scenario for Misuse {
    fn name(&self) -> String {
        "C19/misuse".into()
    }
    fn run(&self) {
        let kind = choose(7);
        let calls = Rc::new(Cell::new(0u32));
        let mut keep = ManuallyDrop::new(Keep { state: IncrState::new(), things: vec![] });
        let st = keep.state.clone();
        let count = |c: &Rc<Cell<u32>>| {
            c.set(c.get() + 1);
            if c.get() > 200 {
                panic!("symx-hang: user functions keep being invoked");
            }
        };
        let r: Result<(), String> = match kind {
            0 | 1 => {
                // cycle through one bind (+ map), optionally observed via a second map
                op_log(format!("cycle through one bind, variant {kind}"));
                cover("cycle-through-one-bind");
                let v = st.var(fresh());
                let slot: Rc<RefCell<Option<Incr<SV>>>> = Rc::new(RefCell::new(None));
                let s2 = slot.clone();
                let c2 = calls.clone();
                let b = v.bind(move |_| {
                    count(&c2);
                    s2.borrow().clone().unwrap()
                });
                let c3 = calls.clone();
                let m = b.map(move |x| {
                    count(&c3);
                    app(1, &[x.clone()])
                });
                let top = if kind == 1 { m.map(|x| app(2, &[x.clone()])) } else { m.clone() };
                *slot.borrow_mut() = Some(m);
                let o = top.observe();
                let r = catch(|| st.stabilise());
                slot.borrow_mut().take();
                keep.things.push(Box::new(o));
                keep.things.push(Box::new(v));
                r
            }
            2 => {
                op_log("cycle through two binds".into());
                cover("cycle-through-two-binds");
                let v = st.var(fresh());
                let w = st.var(fresh());
                let slot: Rc<RefCell<Option<Incr<SV>>>> = Rc::new(RefCell::new(None));
                let s2 = slot.clone();
                let c2 = calls.clone();
                let b1 = v.bind(move |_| {
                    count(&c2);
                    s2.borrow().clone().unwrap()
                });
                let m1 = b1.map(|x| app(1, &[x.clone()]));
                let m1c = m1.clone();
                let c3 = calls.clone();
                let b2 = w.bind(move |_| {
                    count(&c3);
                    m1c.clone()
                });
                let m2 = b2.map(|x| app(2, &[x.clone()]));
                *slot.borrow_mut() = Some(m2.clone());
                let o = m2.observe();
                let r = catch(|| st.stabilise());
                slot.borrow_mut().take();
                keep.things.push(Box::new(o));
                keep.things.push(Box::new((v, w)));
                r
            }
            3 => {
                op_log("bind returns a node of another state".into());
                cover("foreign-state-node-from-bind");
                let other = IncrState::new();
                let foreign = other.var(fresh());
                let fw = foreign.watch();
                let v = st.var(fresh());
                // the foreign node comes back on the first run of the closure, or only on a later run
                // (after the bind has already been linked to a node of its own state)
                let later = choose(2) == 1;
                // (every write re-runs the closure, whatever the values)
                v.watch().set_cutoff(incremental::Cutoff::Never);
                let own = st.var(fresh());
                let ownw = own.watch();
                let runs = Rc::new(Cell::new(0u32));
                let b = v.bind(move |_| {
                    runs.set(runs.get() + 1);
                    if later && runs.get() == 1 {
                        ownw.clone()
                    } else {
                        fw.clone()
                    }
                });
                let o = b.observe();
                if later {
                    cover("foreign-state-node-on-a-later-run");
                    op_log("(first run returns a node of the bind's own state)".into());
                    if let Err(m) = catch(|| st.stabilise()) {
                        violation("C19/legal-bind-rejected", format!("a bind returning a node of its own state panicked: {m}"));
                    }
                    v.set(fresh());
                }
                keep.things.push(Box::new(own));
                let r = catch(|| st.stabilise());
                let got = o.try_get_value();
                if got.is_ok() {
                    violation("C19/value-computed-from-foreign-state", format!("{got:?}"));
                }
                keep.things.push(Box::new(o));
                keep.things.push(Box::new((v, foreign, other)));
                // no diagnostic text is required for this one, only the panic
                match r {
                    Ok(()) => Ok(()),
                    Err(m) => Err(format!("cyclic-or-expected: {m}")),
                }
            }
            5 | 6 => {
                // cycle through the scope edge of a bind: l = u.bind(..) starts returning a node that
                // was created inside the closure of b = l.bind(..); variant 6: that closure also
                // creates and drops a scratch node first
                op_log(format!("cycle through a bind's scope edge{}", if kind == 6 { ", closure drops a scratch node" } else { "" }));
                cover(if kind == 6 { "cycle-through-scope-edge-with-scratch-node" } else { "cycle-through-scope-edge" });
                let u = st.var(fresh());
                // the second write to u must re-run the bind whatever the values are
                u.set_cutoff(incremental::Cutoff::Never);
                let base = st.var(fresh());
                let other = st.var(fresh());
                let slot: Rc<RefCell<Option<Incr<SV>>>> = Rc::new(RefCell::new(None));
                let (s2, basew) = (slot.clone(), base.watch());
                let c2 = calls.clone();
                let l = u.bind(move |_| {
                    count(&c2);
                    s2.borrow().clone().unwrap_or_else(|| basew.clone())
                });
                let (s3, ow) = (slot.clone(), other.watch());
                let c3 = calls.clone();
                let scratch = kind == 6;
                let b = l.bind(move |_| {
                    count(&c3);
                    if scratch {
                        let tmp = ow.map(|x| app(3, &[x.clone()]));
                        drop(tmp);
                    }
                    let kept = ow.map(|x| app(4, &[x.clone()]));
                    *s3.borrow_mut() = Some(kept.clone());
                    kept
                });
                let o = b.observe();
                let first = catch(|| st.stabilise());
                let r = match first {
                    Err(m) => Err(format!("first stabilise (no cycle yet) panicked: {m}")),
                    Ok(()) => {
                        u.set(fresh());
                        catch(|| st.stabilise())
                    }
                };
                if r.is_ok() {
                    let got = o.try_get_value();
                    op_log(format!("after the cycle-closing stabilise the observer returns {got:?}"));
                }
                slot.borrow_mut().take();
                keep.things.push(Box::new(o));
                keep.things.push(Box::new((u, base, other)));
                r
            }
            _ => {
                // stabilise from inside a node function or an update handler
                let inside = choose(2);
                op_log(format!("nested stabilise, from {}", if inside == 0 { "a node function" } else { "an update handler" }));
                cover(if inside == 0 { "stabilise-inside-node-function" } else { "stabilise-inside-handler" });
                let v = st.var(fresh());
                let ws: WeakState = st.weak();
                let nested: Rc<RefCell<Option<Result<(), String>>>> = Rc::new(RefCell::new(None));
                // a second, observed computation that has pending work when the nested stabilise is attempted
                let w2 = st.var(fresh());
                let side_calls = Rc::new(Cell::new(0u32));
                let sc = side_calls.clone();
                let side = w2.map(move |x| {
                    sc.set(sc.get() + 1);
                    app(6, &[x.clone()])
                });
                let o_side = side.observe();
                let ran_in_nested = Rc::new(Cell::new(0u32));
                let o: Observer<SV>;
                if inside == 0 {
                    let n2 = nested.clone();
                    let m = v.map(move |x| {
                        let s = ws.upgrade().unwrap();
                        // asked twice: a refusal must not make the next attempt succeed
                        let r1 = catch(|| s.stabilise());
                        let r2 = catch(|| s.stabilise());
                        *n2.borrow_mut() = Some(match (r1, r2) {
                            (Err(e), Err(_)) => Err(e),
                            _ => Ok(()),
                        });
                        app(1, &[x.clone()])
                    });
                    o = m.observe();
                } else {
                    o = v.observe();
                    let n2 = nested.clone();
                    let (w2c, sc2, rin) = (w2.clone(), side_calls.clone(), ran_in_nested.clone());
                    o.subscribe(move |_| {
                        let s = ws.upgrade().unwrap();
                        // make work pending, then try to stabilise from inside the handler
                        w2c.set(fresh());
                        let before = sc2.get();
                        let r1 = catch(|| s.stabilise());
                        let r2 = catch(|| s.stabilise());
                        *n2.borrow_mut() = Some(match (r1, r2) {
                            (Err(e), Err(_)) => Err(e),
                            _ => Ok(()),
                        });
                        rin.set(sc2.get() - before);
                    });
                }
                let r = catch(|| st.stabilise());
                let inner = nested.borrow_mut().take();
                match inner {
                    Some(Err(_)) => {}
                    Some(Ok(())) => violation("C19/nested-stabilise-accepted", "stabilise called from inside stabilise returned normally".into()),
                    None => violation("C19/nested-stabilise-not-reached", "the closure did not run".into()),
                }
                if ran_in_nested.get() > 0 {
                    violation("C19/nested-stabilise-computed-values", format!("stabilise called from inside an update handler ran {} node functions before it failed", ran_in_nested.get()));
                }
                keep.things.push(Box::new((o_side, w2)));
                keep.things.push(Box::new(o));
                keep.things.push(Box::new(v));
                // the inner panic was caught by the closure: the outer stabilise must still be sane
                if let Err(m) = &r {
                    violation("C19/outer-stabilise-broken-by-caught-nested-panic", m.clone());
                }
                Err("cyclic-or-expected: nested".into())
            }
        };
        match (kind, r) {
            (0..=2 | 5 | 6, Ok(())) => violation("C19/cycle-accepted", "a dependency cycle through a bind stabilised without a panic".into()),
            (0..=2 | 5 | 6, Err(m)) => {
                if m.contains("symx-hang") {
                    violation("C19/cycle-loops", m);
                } else if !m.contains("cyclic") {
                    violation("C19/cycle-panic-without-diagnostic", m);
                }
            }
            (3, Ok(())) => violation("C19/foreign-state-node-accepted", "a bind returned a node of another state and stabilise returned normally".into()),
            _ => {}
        }
        let k = ManuallyDrop::into_inner(keep);
        // (the second state handle goes last: the state itself is destroyed inside the guarded region)
        if let Err(msg) = catch(move || {
            drop(k);
            drop(st);
        }) {
            violation("C19/panic-while-dropping-after-misuse", msg);
        }
    }
}


/// A bind that has stabilised on a short branch switches to a pre-existing, already computed
/// branch: the limit must be enforced by the height adjustment too.
pub struct BindSwitchLimit {
    pub max_n: usize,
}

impl Scenario for BindSwitchLimit {
    fn name(&self) -> String {
        "C19/bind_switch_limit".into()
    }
    fn run(&self) {
        // limit n in 3..=max_n ; the tall branch has height n-1 (bind main fits: n) or n (main would need n+1)
        let n = 3 + choose(self.max_n - 2);
        let over = choose(2);
        let tall_h = n - 1 + over;
        op_log(format!("new_with_height({n}); tall branch of height {tall_h}, bind main would need {}", tall_h + 1));
        let mut keep = ManuallyDrop::new(Keep { state: IncrState::new_with_height(n), things: vec![] });
        let r = catch(|| {
            let st = keep.state.clone();
            let x0 = fresh();
            let v = st.var(x0.clone());
            let s0 = fresh();
            let sel = st.var(s0.clone());
            let (tall, eval_tall) = chain(&v.watch(), tall_h - 1, 0);
            let short = v.watch();
            let (t2, sh2) = (tall.clone(), short.clone());
            let b = sel.bind(move |s: &SV| if crate::exec::decide_pred(0, &[s.clone()]) { sh2.clone() } else { t2.clone() });
            let ot = tall.observe();
            let ob = b.observe();
            let r1 = catch(|| st.stabilise());
            if let Err(m) = r1 {
                // the first choice may already be the tall branch
                if over == 1 {
                    if !m.to_lowercase().contains("height") {
                        violation("C19/height-panic-without-diagnostic/bind-switch", m);
                    }
                } else {
                    violation("C19/legal-height-rejected", format!("limit {n}: {m}"));
                }
                keep.things.push(Box::new((ot, ob, v, sel)));
                return;
            }
            let first_short = crate::exec::decide_pred(0, &[s0.clone()]);
            if !first_short && over == 1 {
                violation("C19/too-tall-graph-accepted/bind-first-run", format!("limit {n}: the bind returned a branch of height {tall_h} and was accepted"));
            }
            // switch
            let s1 = fresh();
            sel.set(s1.clone());
            let r2 = catch(|| st.stabilise());
            let now_short = crate::exec::decide_pred(0, &[s1.clone()]);
            if first_short && !now_short {
                cover("bind-switched-to-taller-existing-branch");
                if over == 1 {
                    expect_height_panic("bind-switch", r2);
                } else {
                    match r2 {
                        Err(m) => violation("C19/legal-height-rejected", format!("limit {n}, bind over a branch of height {tall_h}: {m}")),
                        Ok(()) => {
                            if let Ok(val) = ob.try_get_value() {
                                let w = eval_tall(&x0);
                                let (v2, w2) = (val.clone(), w.clone());
                                require("C19/value-at-height-limit", F::eq(&val, &w), move || format!("bind returned {v2:?}, expected {w2:?}"));
                            }
                        }
                    }
                }
            } else if let Err(m) = r2 {
                if !(over == 1 && !now_short) {
                    violation("C19/unexpected-panic", m);
                }
            }
            keep.things.push(Box::new((ot, ob, v, sel)));
        });
        if let Err(msg) = r {
            violation("C19/unexpected-panic", msg);
            return;
        }
        let k = ManuallyDrop::into_inner(keep);
        if let Err(msg) = catch(move || drop(k)) {
            violation("C19/panic-while-dropping-after-limit-panic", msg);
        }
    }
}

/// A bind whose closure builds a fresh node every time, re-run several times under a limit that
/// the graph never exceeds: heights must not creep (the graph's height is the same after every
/// re-run), so every stabilise is accepted and the value is right.
pub struct RebindWithinLimit {
    pub reruns: usize,
}

impl Scenario for RebindWithinLimit {
    fn name(&self) -> String {
        "C19/rebind_within_limit".into()
    }
    fn run(&self) {
        // var (1) -> chain of k maps (1 + k) -> bind: change node 2 + k, closure-built node 3 + k, main 4 + k
        let k = choose(2);
        let slack = choose(3);
        let n = 4 + k + slack;
        op_log(format!("new_with_height({n}); bind graph of height {} whose closure builds a fresh node; {} re-runs", 4 + k, self.reruns));
        let mut keep = ManuallyDrop::new(Keep { state: IncrState::new_with_height(n), things: vec![] });
        let r = catch(|| {
            let st = keep.state.clone();
            let mut x = fresh();
            let v = st.var(x.clone());
            let y = fresh();
            let w = st.var(y.clone());
            let (lhs, ev) = chain(&v.watch(), k, 0);
            let ww = w.watch();
            let b = lhs.bind(move |l: &SV| {
                let l = l.clone();
                ww.map(move |yv| app(91, &[l.clone(), yv.clone()]))
            });
            let o = b.observe();
            for i in 0..=self.reruns {
                if i > 0 {
                    x = fresh();
                    v.set(x.clone());
                }
                match catch(|| st.stabilise()) {
                    Err(m) => {
                        violation("C19/legal-height-rejected/after-bind-rerun", format!("limit {n}, graph height {}: stabilise #{} (after {i} re-runs of the closure at most): {m}", 4 + k, i + 1));
                        break;
                    }
                    Ok(()) => {
                        cover("bind-rerun-under-a-limit-the-graph-fits");
                        if let Ok(val) = o.try_get_value() {
                            let want = app(91, &[ev(&x), y.clone()]);
                            let (v2, w2) = (val.clone(), want.clone());
                            require("C19/value-at-height-limit", F::eq(&val, &want), move || format!("bind returned {v2:?}, expected {w2:?}"));
                        }
                    }
                }
            }
            keep.things.push(Box::new((o, b, v, w)));
        });
        if let Err(msg) = r {
            violation("C19/unexpected-panic", msg);
            return;
        }
        let k = ManuallyDrop::into_inner(keep);
        if let Err(msg) = catch(move || drop(k)) {
            violation("C19/panic-while-dropping-after-limit-panic", msg);
        }
    }
}
