//! C20: weak_memoize_fn returns one shared node per live key, whatever the calling scope.
use crate::exec::{app, catch, choose, cover, decide_pred, fresh, op_log, require, violation, Scenario};
use crate::term::{F, SV};
use incremental::{Incr, IncrState, Observer, ObserverError, Var, WeakIncr};
use std::cell::{Cell, RefCell};
use std::mem::ManuallyDrop;
use std::rc::Rc;

pub struct Memo {
    pub len: usize,
    pub recursive: bool,
}

const KEYS: usize = 3;

struct W {
    state: IncrState,
    vars: Vec<(Var<SV>, SV)>,
    sel: (Var<SV>, SV),
    calls: Rc<RefCell<Vec<u32>>>,
    memo: Box<dyn FnMut(usize) -> Incr<SV>>,
    /// handles the harness holds: (key, node)
    held: Vec<(usize, Incr<SV>)>,
    /// weak probe of the node last returned for each key
    probe: Rc<RefCell<Vec<Option<WeakIncr<SV>>>>>,
    memo_for_bind: Option<Box<dyn FnMut(usize) -> Incr<SV>>>,
    observers: Vec<(usize, Observer<SV>, bool)>,
    bind: Option<Incr<SV>>,
    bind_obs: Option<Observer<SV>>,
    /// nodes handed out from inside the bind closure: (key, node)
    from_closure: Rc<RefCell<Vec<(usize, Incr<SV>)>>>,
    dirty: bool,
}

impl W {
    /// value of the memoised node for key k, from scratch
    fn eval(&self, k: usize, recursive: bool) -> SV {
        if recursive && k > 0 {
            app(10 + k as u16, &[self.eval(k - 1, recursive), self.vars[k].1.clone()])
        } else {
            app(k as u16, &[self.vars[k].1.clone()])
        }
    }
    fn call(&mut self, k: usize, whence: &str) -> Incr<SV> {
        checked_call(&mut self.memo, &self.calls, &self.probe, k, whence)
    }
}

fn checked_call(memo: &mut Box<dyn FnMut(usize) -> Incr<SV>>, calls: &Rc<RefCell<Vec<u32>>>, probe: &Rc<RefCell<Vec<Option<WeakIncr<SV>>>>>, k: usize, whence: &str) -> Incr<SV> {
    let before = calls.borrow()[k];
    let alive = probe.borrow()[k].as_ref().map_or(false, |w| w.strong_count() > 0);
    let prev = probe.borrow()[k].as_ref().and_then(|w| w.upgrade());
    let n = memo(k);
    let after = calls.borrow()[k];
    if alive {
        cover("memoised-call-while-node-alive");
        if after != before {
            violation("C20/function-invoked-for-live-key", format!("{whence}: the node for key {k} is still referenced, yet the underlying function ran again"));
        }
        if let Some(p) = &prev {
            if p != &n {
                violation("C20/different-node-for-live-key", format!("{whence}: key {k} has a live node but the memoised function returned another node"));
            }
        }
    } else {
        cover("memoised-call-after-node-released");
        if after != before + 1 {
            violation("C20/function-not-invoked-after-release", format!("{whence}: no reference to the node of key {k} is left, the underlying function ran {} times", after - before));
        }
    }
    drop(prev);
    probe.borrow_mut()[k] = Some(n.weak());
    n
}

impl Scenario for Memo {
    fn name(&self) -> String {
        if self.recursive { "C20/memo_recursive".into() } else { "C20/memo".into() }
    }
    fn run(&self) {
        let recursive = self.recursive;
        let state = IncrState::new();
        let vars: Vec<(Var<SV>, SV)> = (0..KEYS)
            .map(|_| {
                let x = fresh();
                (state.var(x.clone()), x)
            })
            .collect();
        let calls = Rc::new(RefCell::new(vec![0u32; KEYS]));
        let watches: Vec<Incr<SV>> = vars.iter().map(|v| v.0.watch()).collect();
        // the memoised function; the recursive variant calls itself for k-1 through a slot
        let slot: Rc<RefCell<Option<Box<dyn FnMut(usize) -> Incr<SV>>>>> = Rc::new(RefCell::new(None));
        let probe: Rc<RefCell<Vec<Option<WeakIncr<SV>>>>> = Rc::new(RefCell::new(vec![None, None, None]));
        let probe_f = probe.clone();
        let mut memo_for_bind: Option<Box<dyn FnMut(usize) -> Incr<SV>>> = None;
        let memo: Box<dyn FnMut(usize) -> Incr<SV>> = {
            let calls = calls.clone();
            let slot2 = slot.clone();
            let f = move |k: usize| -> Incr<SV> {
                calls.borrow_mut()[k] += 1;
                if recursive && k > 0 {
                    let below = {
                        let mut s = slot2.borrow_mut().take().expect("recursive memo slot");
                        let r = s(k - 1);
                        *slot2.borrow_mut() = Some(s);
                        probe_f.borrow_mut()[k - 1] = Some(r.weak());
                        r
                    };
                    below.map2(&watches[k], move |a, b| app(10 + k as u16, &[a.clone(), b.clone()]))
                } else {
                    watches[k].map(move |x| app(k as u16, &[x.clone()]))
                }
            };
            let m = state.weak_memoize_fn(f);
            if recursive {
                *slot.borrow_mut() = Some(Box::new(m.clone()));
            }
            memo_for_bind = Some(Box::new(m.clone()));
            Box::new(m)
        };
        let s0 = fresh();
        let sel = (state.var(s0.clone()), s0);
        let mut w = ManuallyDrop::new(W {
            state,
            vars,
            sel,
            calls,
            memo,
            held: vec![],
            probe,
            memo_for_bind,
            observers: vec![],
            bind: None,
            bind_obs: None,
            from_closure: Rc::new(RefCell::new(vec![])),
            dirty: false,
        });
        let r = catch(|| {
            for _ in 0..self.len {
                // enabled actions
                #[derive(Debug, Clone)]
                enum A {
                    Call(usize),
                    DropHeld(usize),
                    ObserveHeld(usize),
                    DropObs(usize),
                    WriteVar(usize),
                    WriteSel,
                    MakeBind,
                    ObserveBind,
                    DropBindObs,
                    DropBind,
                    KeepClosureNode,
                    Stabilise,
                }
                let mut acts = vec![];
                for k in 0..KEYS.min(if recursive { 2 } else { 3 }) {
                    acts.push(A::Call(k));
                }
                for i in 0..w.held.len() {
                    acts.push(A::DropHeld(i));
                    if w.observers.len() < 2 {
                        acts.push(A::ObserveHeld(i));
                    }
                }
                for i in 0..w.observers.len() {
                    acts.push(A::DropObs(i));
                }
                acts.push(A::WriteVar(0));
                if !recursive {
                    if w.bind.is_none() && w.bind_obs.is_none() && w.memo_for_bind.is_some() {
                        acts.push(A::MakeBind);
                    } else if w.bind.is_some() || w.bind_obs.is_some() {
                        acts.push(A::WriteSel);
                        if w.bind_obs.is_none() && w.bind.is_some() {
                            acts.push(A::ObserveBind);
                        }
                        if w.bind_obs.is_some() {
                            acts.push(A::DropBindObs);
                        }
                        if w.bind.is_some() {
                            acts.push(A::DropBind);
                        }
                        if !w.from_closure.borrow().is_empty() && w.held.len() < 3 {
                            acts.push(A::KeepClosureNode);
                        }
                    }
                }
                if w.dirty {
                    acts.push(A::Stabilise);
                }
                let a = acts[choose(acts.len())].clone();
                op_log(format!("{a:?}"));
                match a {
                    A::Call(k) => {
                        let n = w.call(k, "top level");
                        if w.held.len() < 3 {
                            w.held.push((k, n));
                        }
                    }
                    A::DropHeld(i) => {
                        w.held.remove(i);
                        w.dirty = true;
                    }
                    A::ObserveHeld(i) => {
                        let (k, n) = w.held[i].clone();
                        w.observers.push((k, n.observe(), false));
                        w.dirty = true;
                    }
                    A::DropObs(i) => {
                        w.observers.remove(i);
                        w.dirty = true;
                    }
                    A::WriteVar(k) => {
                        let x = fresh();
                        w.vars[k].0.set(x.clone());
                        w.vars[k].1 = x;
                        w.dirty = true;
                    }
                    A::WriteSel => {
                        let x = fresh();
                        w.sel.0.set(x.clone());
                        w.sel.1 = x;
                        w.dirty = true;
                    }
                    A::MakeBind => {
                        // the closure calls the memoised function: key 0 or 1 by a predicate of the lhs
                        let m = Rc::new(RefCell::new(w.memo_for_bind.take().unwrap()));
                        let fc = w.from_closure.clone();
                        let (calls, probe) = (w.calls.clone(), w.probe.clone());
                        // plan: the call sits directly in the closure, or in the closure of a bind built inside it
                        let nested = choose(2) == 1;
                        op_log(format!("(memoised call {} the bind closure)", if nested { "in a bind nested inside" } else { "directly in" }));
                        let inner_lhs = w.vars[2].0.watch();
                        let b = w.sel.0.bind(move |s: &SV| {
                            let k = if decide_pred(0, &[s.clone()]) { 0 } else { 1 };
                            if nested {
                                let (m, fc, calls, probe) = (m.clone(), fc.clone(), calls.clone(), probe.clone());
                                cover("memoised-call-inside-nested-bind-closure");
                                inner_lhs.bind(move |_| {
                                    let n = checked_call(&mut m.borrow_mut(), &calls, &probe, k, "inside a nested bind closure");
                                    fc.borrow_mut().push((k, n.clone()));
                                    n
                                })
                            } else {
                                let n = checked_call(&mut m.borrow_mut(), &calls, &probe, k, "inside a bind closure");
                                fc.borrow_mut().push((k, n.clone()));
                                cover("memoised-call-inside-bind-closure");
                                n
                            }
                        });
                        w.bind = Some(b);
                    }
                    A::ObserveBind => {
                        w.bind_obs = Some(w.bind.as_ref().unwrap().observe());
                        w.dirty = true;
                    }
                    A::DropBindObs => {
                        w.bind_obs = None;
                        w.dirty = true;
                    }
                    A::DropBind => {
                        w.bind = None;
                        w.bind_obs = None;
                        w.dirty = true;
                        cover("bind-dropped");
                    }
                    A::KeepClosureNode => {
                        let (k, n) = w.from_closure.borrow().last().cloned().unwrap();
                        w.held.push((k, n));
                        cover("node-from-closure-kept");
                    }
                    A::Stabilise => {
                        let gens_before = w.from_closure.borrow().len();
                        w.state.stabilise();
                        w.dirty = false;
                        if w.from_closure.borrow().len() > gens_before + 0 && gens_before > 0 {
                            cover("bind-re-ran");
                        }
                        // the harness must not keep closure-made nodes alive by accident: only the last one
                        let keep_from = w.from_closure.borrow().len().saturating_sub(1);
                        w.from_closure.borrow_mut().drain(..keep_from);
                        // every observed memoised node is valid and correct, whatever scope asked for it
                        let model: Vec<SV> = w.vars.iter().map(|v| v.1.clone()).collect();
                        for (k, o, seen) in w.observers.iter_mut() {
                            *seen = true;
                            match o.try_get_value() {
                                Ok(v) => {
                                    let want = if recursive && *k > 0 {
                                        None
                                    } else {
                                        Some(app(*k as u16, &[model[*k].clone()]))
                                    };
                                    let want = want.unwrap_or_else(|| {
                                        let mut acc = app(0, &[model[0].clone()]);
                                        for j in 1..=*k {
                                            acc = app(10 + j as u16, &[acc, model[j].clone()]);
                                        }
                                        acc
                                    });
                                    let (v2, w2, kk) = (v.clone(), want.clone(), *k);
                                    require("C20/memoised-node-value", F::eq(&v, &want), move || format!("observer on the memoised node of key {kk} returned {v2:?}, expected {w2:?}"));
                                }
                                Err(ObserverError::ObservingInvalid) => violation("C20/memoised-node-invalidated", format!("the memoised node of key {k} became invalid (it must belong to the scope weak_memoize_fn was called in)")),
                                Err(e) => violation("C20/memoised-node-unreadable", format!("{e:?}")),
                            }
                        }
                        if let Some(o) = &w.bind_obs {
                            if let Ok(v) = o.try_get_value() {
                                let k = if decide_pred(0, &[w.sel.1.clone()]) { 0 } else { 1 };
                                let want = app(k as u16, &[w.vars[k].1.clone()]);
                                let (v2, w2) = (v.clone(), want.clone());
                                require("C20/bind-over-memoised-node-value", F::eq(&v, &want), move || format!("bind returned {v2:?}, expected {w2:?}"));
                            }
                        }
                    }
                }
            }
            let _ = w.eval(0, recursive);
        });
        let ww = ManuallyDrop::into_inner(w);
        match r {
            Ok(()) => {
                if let Err(msg) = catch(move || drop(ww)) {
                    crate::exec::note_panic(msg);
                }
            }
            Err(msg) => {
                std::mem::forget(ww);
                if msg.rsplit(" @ ").next().map_or(false, |l| l.starts_with("src/")) {
                    panic!("symx: harness panicked: {msg}");
                }
                violation("C20/panic", msg);
            }
        }
    }
}

#[allow(dead_code)]
fn _unused(_: Cell<u32>) {}

/// The memoised function is itself created inside a bind closure (its nodes belong to that run of
/// the bind) and handed out together with the node it returned. While that node is held, the
/// function returns it for its key without running the underlying function - also after the bind
/// has re-run and the node has become invalid; once it is released and a stabilise has run, the
/// next call runs the function again.
pub struct MemoMadeInClosure {
    pub len: usize,
}

type Memoised = Box<dyn FnMut(usize) -> Incr<SV>>;

impl Scenario for MemoMadeInClosure {
    fn name(&self) -> String {
        "C20/memoised_inside_bind_closure".into()
    }
    fn run(&self) {
        let state = IncrState::new();
        let x0 = fresh();
        let x = state.var(x0);
        let s0 = fresh();
        let sel = state.var(s0);
        // per run of the closure: (memoised function, number of underlying calls)
        let escaped: Rc<RefCell<Vec<(Memoised, Rc<Cell<u32>>)>>> = Rc::new(RefCell::new(vec![]));
        let esc = escaped.clone();
        let xw = x.watch();
        // a memoised function made by this run of the closure has never returned anything: its first call runs the function
        let fresh_fn_hit = Rc::new(Cell::new(false));
        let ffh = fresh_fn_hit.clone();
        let b = sel.binds(move |ws, s: &SV| {
            let calls = Rc::new(Cell::new(0u32));
            let (c2, xw2, cap) = (calls.clone(), xw.clone(), s.clone());
            let mut m = ws.upgrade().unwrap().weak_memoize_fn(move |k: usize| {
                c2.set(c2.get() + 1);
                let cap = cap.clone();
                xw2.map(move |v| app(30 + k as u16, &[cap.clone(), v.clone()]))
            });
            let n = m(0);
            if calls.get() != 1 {
                ffh.set(true);
            }
            esc.borrow_mut().push((Box::new(m), calls));
            n
        });
        let keep = ManuallyDrop::new((state, x, sel, b, escaped));
        let r = catch(|| {
            let (state, _x, sel, b, escaped) = &*keep;
            let bo = b.observe();
            state.stabilise();
            // the harness works with the function memoised by the first run of the closure
            let (mut m, calls) = escaped.borrow_mut().remove(0);
            let mut held: Option<Incr<SV>> = None;
            let mut reran = false;
            for _ in 0..self.len {
                let k = choose(4);
                match k {
                    0 => {
                        if reran && held.is_none() {
                            // a cache miss would run the function in the scope of a bind run that is over: the
                            // engine refuses that with a panic, and the property says nothing about it
                            continue;
                        }
                        op_log("Call".into());
                        let before = calls.get();
                        let n = m(0);
                        match &held {
                            Some(h) => {
                                cover(if reran { "call-with-held-node-after-the-bind-re-ran" } else { "call-with-held-node" });
                                if calls.get() != before {
                                    violation("C20/function-invoked-for-live-key", format!("the node of key 0 is still held{}, yet the underlying function ran again", if reran { " (the bind that memoised the function has re-run since)" } else { "" }));
                                }
                                if h != &n {
                                    violation("C20/different-node-for-live-key", "key 0 has a live node but the memoised function returned another node".into());
                                }
                            }
                            None => {
                                // (the bind still references the node: a hit)
                                if calls.get() != before {
                                    violation("C20/function-invoked-for-live-key", "the bind that memoised the function still uses the node of key 0 as its result, yet the underlying function ran again".into());
                                }
                                held = Some(n);
                            }
                        }
                    }
                    1 => {
                        op_log("WriteSel".into());
                        sel.set(fresh());
                    }
                    2 => {
                        op_log("Stabilise".into());
                        let runs = escaped.borrow().len();
                        state.stabilise();
                        if fresh_fn_hit.get() {
                            violation("C20/fresh-memoised-function-did-not-invoke", "a function memoised by this run of the bind closure returned a node for key 0 without running the underlying function (it had never been called)".into());
                        }
                        if escaped.borrow().len() != runs {
                            cover(if reran { "bind-that-memoises-re-ran-twice" } else { "bind-that-memoises-re-ran" });
                            reran = true;
                            // later runs memoise their own functions: only the first one is exercised
                            escaped.borrow_mut().clear();
                        }

                    }
                    _ => {
                        op_log("DropHeld".into());
                        held = None;
                    }
                }
            }
            drop(bo);
        });
        let k = ManuallyDrop::into_inner(keep);
        match r {
            Ok(()) => {
                if let Err(msg) = catch(move || drop(k)) {
                    crate::exec::note_panic(msg);
                }
            }
            Err(msg) => {
                std::mem::forget(k);
                if msg.rsplit(" @ ").next().map_or(false, |l| l.starts_with("src/")) {
                    panic!("symx: harness panicked: {msg}");
                }
                violation("C20/panic", msg);
            }
        }
    }
}
