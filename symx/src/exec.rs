//! The executor: one *path* is one native run of the real engine under a decision trail.
//! Value-dependent branches (`SV::eq`, predicates) are decided by the SMT solver under the
//! current path condition; enumerated choices (`choose`) fork on every alternative.
//! Exploration is depth-first by re-execution; the tree is split over worker threads.
use crate::solver::{Sat, Solver, SolverStats};
use crate::term::{F, SV, T};
use std::cell::RefCell;
use std::collections::{BTreeMap, BTreeSet, VecDeque};
use std::panic::{catch_unwind, resume_unwind, AssertUnwindSafe};
use std::rc::Rc;
use std::sync::atomic::{AtomicBool, AtomicU64, Ordering};
use std::sync::Mutex;
use std::time::{Duration, Instant};

#[derive(Clone, Debug, PartialEq)]
pub enum Dec {
    /// solver-decided branch; `other` = the opposite polarity is feasible and unexplored
    Bool { taken: bool, other: bool, both: bool, h: u32 },
    /// enumerated choice; the value used is `(taken + rot) % n`
    Choose { taken: u32, n: u32, rot: u32 },
}

impl Dec {
    pub fn render(&self) -> String {
        match self {
            Dec::Bool { taken, .. } => if *taken { "T".into() } else { "F".into() },
            Dec::Choose { taken, n, rot } => format!("{}", (taken + rot) % n),
        }
    }
}

#[derive(Clone, Debug, Default)]
pub struct Valuation {
    pub leaves: BTreeMap<u32, i64>,
    pub tables: BTreeMap<(u16, Vec<i64>), i64>,
    pub preds: BTreeMap<(u16, Vec<i64>), bool>,
}

impl Valuation {
    pub fn eval(&self, t: &SV, misses: &mut u32) -> i64 {
        match &*t.0 {
            T::Leaf(n) => match self.leaves.get(n) {
                Some(v) => *v,
                None => 1_000_000 + *n as i64,
            },
            T::Lit(n) => *n,
            T::Add(a, b) => self.eval(a, misses).wrapping_add(self.eval(b, misses)),
            T::Sub(a, b) => self.eval(a, misses).wrapping_sub(self.eval(b, misses)),
            T::App(f, args) => {
                let av: Vec<i64> = args.iter().map(|a| self.eval(a, misses)).collect();
                match self.tables.get(&(*f, av.clone())) {
                    Some(v) => *v,
                    None => {
                        *misses += 1;
                        // deterministic default, unlikely to collide with model values
                        let mut h: i64 = 2_000_000 + (*f as i64) * 7919;
                        for a in av {
                            h = h.wrapping_mul(31).wrapping_add(a);
                        }
                        h
                    }
                }
            }
        }
    }
    pub fn eval_f(&self, f: &F, misses: &mut u32) -> bool {
        match f {
            F::True => true,
            F::False => false,
            F::Eq(a, b) => self.eval(a, misses) == self.eval(b, misses),
            F::Pred(p, args) => {
                let av: Vec<i64> = args.iter().map(|a| self.eval(a, misses)).collect();
                match self.preds.get(&(*p, av)) {
                    Some(v) => *v,
                    None => {
                        *misses += 1;
                        false
                    }
                }
            }
            F::Not(g) => !self.eval_f(g, misses),
            F::And(fs) => fs.iter().all(|g| self.eval_f(g, misses)),
            F::Or(fs) => fs.iter().any(|g| self.eval_f(g, misses)),
        }
    }
    pub fn to_json(&self) -> serde_json::Value {
        use serde_json::json;
        let leaves: serde_json::Map<String, serde_json::Value> =
            self.leaves.iter().map(|(k, v)| (format!("x{k}"), json!(v))).collect();
        let tables: Vec<_> = self.tables.iter().map(|((f, a), v)| json!({"f": f, "args": a, "val": v})).collect();
        let preds: Vec<_> = self.preds.iter().map(|((p, a), v)| json!({"p": p, "args": a, "val": v})).collect();
        json!({"leaves": leaves, "tables": tables, "preds": preds})
    }
    pub fn from_json(j: &serde_json::Value) -> Valuation {
        let mut v = Valuation::default();
        if let Some(m) = j["leaves"].as_object() {
            for (k, x) in m {
                v.leaves.insert(k[1..].parse().unwrap(), x.as_i64().unwrap());
            }
        }
        for e in j["tables"].as_array().into_iter().flatten() {
            let a: Vec<i64> = e["args"].as_array().unwrap().iter().map(|x| x.as_i64().unwrap()).collect();
            v.tables.insert((e["f"].as_u64().unwrap() as u16, a), e["val"].as_i64().unwrap());
        }
        for e in j["preds"].as_array().into_iter().flatten() {
            let a: Vec<i64> = e["args"].as_array().unwrap().iter().map(|x| x.as_i64().unwrap()).collect();
            v.preds.insert((e["p"].as_u64().unwrap() as u16, a), e["val"].as_bool().unwrap());
        }
        v
    }
}

/// A violation candidate raised on a symbolic path (or confirmed on a concrete one).
#[derive(Clone, Debug)]
pub struct Cand {
    /// stable identifier of the monitor + role, used as signature for known findings
    pub kind: String,
    pub detail: String,
    pub valuation: Option<Valuation>,
    pub at_op: usize,
}

struct StopPath;

enum Mode {
    Sym,
    Conc { val: Valuation, misses: u32, divergences: u32, stop_on: Option<String> },
}

pub struct Ctx {
    mode: Mode,
    solver: Option<Solver>,
    trail: Vec<Dec>,
    pos: usize,
    split_depth: Option<usize>,
    cut: bool,
    seed: u64,
    leaf_count: u32,
    pc: Vec<F>,
    cands: Vec<Cand>,
    covers: BTreeSet<&'static str>,
    oplog: Vec<String>,
    // per-path counters
    n_bool: u32,
    n_fork: u32,
    n_choose: u32,
    n_validity: u32,
    n_validity_sat: u32,
    last_panic: Option<String>,
    stop_flag: bool,
}

thread_local! {
    static CTX: RefCell<Option<Ctx>> = RefCell::new(None);
    static LAST_PANIC: RefCell<Option<String>> = RefCell::new(None);
}

fn with<R>(f: impl FnOnce(&mut Ctx) -> R) -> R {
    CTX.with(|c| {
        let mut b = c.borrow_mut();
        f(b.as_mut().expect("symx context not installed on this thread"))
    })
}

pub fn install_panic_hook() {
    std::panic::set_hook(Box::new(|info| {
        let msg = if let Some(s) = info.payload().downcast_ref::<&str>() {
            s.to_string()
        } else if let Some(s) = info.payload().downcast_ref::<String>() {
            s.clone()
        } else {
            "<non-string panic>".to_string()
        };
        let loc = info.location().map(|l| format!("{}:{}", l.file(), l.line())).unwrap_or_default();
        LAST_PANIC.with(|p| *p.borrow_mut() = Some(format!("{msg} @ {loc}")));
    }));
}

pub fn take_last_panic() -> Option<String> {
    LAST_PANIC.with(|p| p.borrow_mut().take())
}

fn hash32(s: &str) -> u32 {
    let mut h: u32 = 0x811c9dc5;
    for b in s.bytes() {
        h ^= b as u32;
        h = h.wrapping_mul(0x01000193);
    }
    h | 1
}

fn stop_path() -> ! {
    resume_unwind(Box::new(StopPath))
}

/// Run `f` catching panics of the code under test; the executor's own control-flow unwinds
/// pass through. Returns `Err(message @ location)` on a panic.
pub fn catch<R>(f: impl FnOnce() -> R) -> Result<R, String> {
    match catch_unwind(AssertUnwindSafe(f)) {
        Ok(r) => Ok(r),
        Err(p) => {
            if p.is::<StopPath>() {
                resume_unwind(p)
            }
            Err(take_last_panic().unwrap_or_else(|| "<panic>".into()))
        }
    }
}

// ---------------------------------------------------------------------------------------
// decision API used by SV::eq, harness closures and monitors

pub fn is_concrete() -> bool {
    with(|c| matches!(c.mode, Mode::Conc { .. }))
}

pub fn fresh() -> SV {
    with(|c| {
        let n = c.leaf_count;
        c.leaf_count += 1;
        assert!(n < crate::term::MAX_LEAVES, "too many fresh values on one path");
        SV(Rc::new(T::Leaf(n)))
    })
}

pub fn app(f: u16, args: &[SV]) -> SV {
    assert!(f < crate::term::MAX_FN && !args.is_empty() && args.len() <= crate::term::MAX_ARITY);
    SV(Rc::new(T::App(f, args.to_vec())))
}

pub fn decide_eq(a: &SV, b: &SV) -> bool {
    if a.same(b) {
        return true;
    }
    if let (T::Lit(x), T::Lit(y)) = (&*a.0, &*b.0) {
        return x == y;
    }
    decide(F::Eq(a.clone(), b.clone()))
}

pub fn decide_pred(p: u16, args: &[SV]) -> bool {
    assert!(p < crate::term::MAX_PRED);
    decide(F::Pred(p, args.to_vec()))
}

/// A value-dependent branch. Symbolic mode: both polarities are checked for feasibility
/// under the path condition; concrete mode: evaluated under the valuation.
pub fn decide(cond: F) -> bool {
    match cond {
        F::True => return true,
        F::False => return false,
        _ => {}
    }
    let r = with(|c| {
        c.n_bool += 1;
        if let Mode::Conc { val, misses, divergences, .. } = &mut c.mode {
            let v = val.eval_f(&cond, misses);
            if c.pos < c.trail.len() {
                match &c.trail[c.pos] {
                    Dec::Bool { taken, .. } if *taken == v => {}
                    _ => *divergences += 1,
                }
                c.pos += 1;
            }
            return Some(v);
        }
        let smt = cond.smt();
        if c.pos < c.trail.len() {
            let taken = match &c.trail[c.pos] {
                Dec::Bool { taken, both, h, .. } => {
                    if *both {
                        c.n_fork += 1;
                    }
                    if *h != 0 && *h != hash32(&smt) {
                        // the same decision prefix led to a different condition: the run is not a
                        // function of the trail (e.g. callback order across hash maps)
                        panic!("symx: nondeterministic re-execution: decision {} was about another condition last time; now {}", c.pos, smt);
                    }
                    *taken
                }
                d => panic!("symx: nondeterministic re-execution: expected Bool decision, trail has {d:?} at {}", c.pos),
            };
            c.pos += 1;
            let s = c.solver.as_mut().unwrap();
            if taken {
                s.assert(&smt)
            } else {
                s.assert(&format!("(not {})", smt))
            }
            c.pc.push(if taken { cond } else { cond.not() });
            return Some(taken);
        }
        if let Some(d) = c.split_depth {
            if c.trail.len() >= d {
                c.cut = true;
                return None;
            }
        }
        let s = c.solver.as_mut().unwrap();
        let can_t = s.check_with(&smt) == Sat::Sat;
        let can_f = if !can_t { true } else { s.check_with(&format!("(not {})", smt)) == Sat::Sat };
        let first = if can_t && can_f { c.seed & 1 == 0 } else { can_t };
        if can_t && can_f {
            c.n_fork += 1;
        }
        c.trail.push(Dec::Bool { taken: first, other: can_t && can_f, both: can_t && can_f, h: hash32(&smt) });
        c.pos += 1;
        if first {
            s.assert(&smt)
        } else {
            s.assert(&format!("(not {})", smt))
        }
        c.pc.push(if first { cond } else { cond.not() });
        Some(first)
    });
    match r {
        Some(b) => b,
        None => stop_path(),
    }
}

/// Enumerated fork over `0..n` (history op-codes, arguments, configuration integers).
pub fn choose(n: usize) -> usize {
    assert!(n > 0);
    if n == 1 {
        return 0;
    }
    let r = with(|c| {
        c.n_choose += 1;
        if c.pos < c.trail.len() {
            let v = match &c.trail[c.pos] {
                Dec::Choose { taken, n: m, rot } => {
                    assert_eq!(*m as usize, n, "symx: nondeterministic re-execution: choose arity changed at {}", c.pos);
                    ((taken + rot) % m) as usize
                }
                d => panic!("symx: nondeterministic re-execution: expected Choose, trail has {d:?} at {}", c.pos),
            };
            c.pos += 1;
            return Some(v);
        }
        if matches!(c.mode, Mode::Conc { .. }) {
            // past the recorded trail in a concrete replay: stop the path here
            c.stop_flag = true;
            return None;
        }
        if let Some(d) = c.split_depth {
            if c.trail.len() >= d {
                c.cut = true;
                return None;
            }
        }
        let rot = ((c.seed.wrapping_mul(0x9E37_79B9_7F4A_7C15).wrapping_add(c.trail.len() as u64 * 0x1234_5677)) >> 33) as u32 % n as u32;
        c.trail.push(Dec::Choose { taken: 0, n: n as u32, rot });
        c.pos += 1;
        Some(rot as usize % n)
    });
    match r {
        Some(v) => v,
        None => stop_path(),
    }
}

/// Assume `phi` on this path (prunes the path if infeasible). Used for documented
/// preconditions only; every use is listed in the evidence assumptions.
pub fn assume(phi: F) {
    if !decide(phi) {
        stop_path()
    }
}

pub fn cover(name: &'static str) {
    with(|c| {
        c.covers.insert(name);
    })
}

pub fn op_log(s: String) {
    with(|c| c.oplog.push(s))
}

/// Write the decision trail of the running path to a per-thread file. Called right before a
/// phase in which a double panic could abort the process (injected crash, final drop), so that
/// the wrapper script can find and re-run the culprit in a child process.
pub fn mark_inflight(scenario: &str) {
    let line = with(|c| {
        let t: Vec<String> = c.trail.iter().map(|d| match d {
            Dec::Bool { taken, .. } => format!("{{\"b\":{taken}}}"),
            Dec::Choose { taken, n, rot } => format!("{{\"c\":{taken},\"n\":{n},\"rot\":{rot}}}"),
        }).collect();
        format!("{{\"scenario\":\"{}\",\"trail\":[{}],\"ops\":{:?}}}", scenario, t.join(","), c.oplog)
    });
    use std::io::{Seek, SeekFrom, Write};
    thread_local! {
        static INFLIGHT: RefCell<Option<std::fs::File>> = RefCell::new(None);
    }
    INFLIGHT.with(|f| {
        let mut f = f.borrow_mut();
        if f.is_none() {
            let dir = std::env::var("SYMX_INFLIGHT_DIR").unwrap_or_default();
            if dir.is_empty() {
                return;
            }
            let path = format!("{dir}/{}-{:?}.json", std::process::id(), std::thread::current().id()).replace("ThreadId(", "t").replace(')', "");
            *f = std::fs::File::create(path).ok();
        }
        if let Some(file) = f.as_mut() {
            // one record, padded so that a shorter record fully overwrites a longer one
            let mut rec = line.into_bytes();
            rec.push(b'\n');
            if rec.len() < 4096 {
                rec.resize(4096, b' ');
            }
            let _ = file.seek(SeekFrom::Start(0));
            let _ = file.write_all(&rec);
        }
    });
}

/// Symbolic re-execution of one trail (no exploration): used to confirm an abort in isolation.
pub fn run_trail(scn: &dyn Scenario, trail: Vec<Dec>) -> PathResult {
    let (r, _) = run_path_inner(scn, Mode::Sym, Some(Solver::new(false)), trail, None, 0, false);
    r
}

pub fn note_panic(msg: String) {
    with(|c| c.last_panic = Some(msg))
}

pub fn ops_so_far() -> usize {
    with(|c| c.oplog.len())
}

/// Validity check: does `phi` hold for *every* value assignment consistent with this path?
/// `unsat(pc ∧ ¬phi)` ⇒ holds. `sat` ⇒ candidate with a model, replayed concretely later.
pub fn require(kind: &str, phi: F, detail: impl FnOnce() -> String) {
    if matches!(phi, F::True) {
        return;
    }
    let stop = with(|c| {
        if c.cands.len() >= 4 {
            return false;
        }
        match &mut c.mode {
            Mode::Conc { val, misses, stop_on, .. } => {
                if !val.eval_f(&phi, misses) {
                    let at_op = c.oplog.len();
                    let stop = stop_on.as_deref() == Some(kind);
                    c.cands.push(Cand { kind: kind.to_string(), detail: detail(), valuation: None, at_op });
                    return stop;
                }
            }
            Mode::Sym => {
                c.n_validity += 1;
                let neg = phi.clone().not();
                // terms whose values define the counterexample
                let mut apps = vec![];
                let mut leaves = vec![];
                let mut preds = vec![];
                neg.collect_terms(&mut apps, &mut leaves, &mut preds);
                let s = c.solver.as_mut().unwrap();
                if matches!(neg, F::True) || s.check_with(&neg.smt()) == Sat::Sat {
                    c.n_validity_sat += 1;
                    for f in &c.pc {
                        f.collect_terms(&mut apps, &mut leaves, &mut preds);
                    }
                    let val = extract_model(s, &neg.smt(), &apps, &leaves, &preds);
                    let at_op = c.oplog.len();
                    c.cands.push(Cand { kind: kind.to_string(), detail: detail(), valuation: Some(val), at_op });
                }
            }
        }
        false
    });
    if stop {
        stop_path()
    }
}

/// A structural violation: holds for every value on this path by construction.
pub fn violation(kind: &str, detail: String) {
    let stop = with(|c| {
        if c.cands.len() >= 4 {
            return false;
        }
        let at_op = c.oplog.len();
        match &mut c.mode {
            Mode::Conc { stop_on, .. } => {
                let stop = stop_on.as_deref() == Some(kind);
                c.cands.push(Cand { kind: kind.to_string(), detail, valuation: None, at_op });
                return stop;
            }
            Mode::Sym => {
                let mut apps = vec![];
                let mut leaves = vec![];
                let mut preds = vec![];
                for f in &c.pc {
                    f.collect_terms(&mut apps, &mut leaves, &mut preds);
                }
                let s = c.solver.as_mut().unwrap();
                let val = extract_model(s, "true", &apps, &leaves, &preds);
                c.cands.push(Cand { kind: kind.to_string(), detail, valuation: Some(val), at_op });
            }
        }
        false
    });
    if stop {
        stop_path()
    }
}

fn extract_model(s: &mut Solver, extra: &str, apps: &[SV], leaves: &[u32], preds: &[(u16, Vec<SV>)]) -> Valuation {
    let mut leaves: Vec<u32> = leaves.to_vec();
    leaves.sort();
    leaves.dedup();
    let mut terms: Vec<String> = leaves.iter().map(|n| format!("x{n}")).collect();
    // app terms and their arguments
    let mut app_list: Vec<SV> = vec![];
    let mut seen = BTreeSet::new();
    for a in apps {
        let k = a.smt();
        if seen.insert(k) {
            app_list.push(a.clone());
        }
    }
    let mut arg_index: Vec<Vec<usize>> = vec![];
    let mut app_index: Vec<usize> = vec![];
    for a in &app_list {
        app_index.push(terms.len());
        terms.push(a.smt());
        if let T::App(_, args) = &*a.0 {
            let mut ai = vec![];
            for x in args {
                ai.push(terms.len());
                terms.push(x.smt());
            }
            arg_index.push(ai);
        }
    }
    let mut pred_strs = vec![];
    let mut pred_arg_index: Vec<Vec<usize>> = vec![];
    for (p, args) in preds {
        pred_strs.push(F::Pred(*p, args.clone()).smt());
        let mut ai = vec![];
        for x in args {
            ai.push(terms.len());
            terms.push(x.smt());
        }
        pred_arg_index.push(ai);
    }
    let (tv, pv) = s.model_with(extra, &terms, &pred_strs).expect("model vanished between two identical queries");
    let mut val = Valuation::default();
    for (i, n) in leaves.iter().enumerate() {
        val.leaves.insert(*n, tv[i]);
    }
    for (k, a) in app_list.iter().enumerate() {
        if let T::App(f, _) = &*a.0 {
            let av: Vec<i64> = arg_index[k].iter().map(|i| tv[*i]).collect();
            val.tables.insert((*f, av), tv[app_index[k]]);
        }
    }
    for (k, (p, _)) in preds.iter().enumerate() {
        let av: Vec<i64> = pred_arg_index[k].iter().map(|i| tv[*i]).collect();
        val.preds.insert((*p, av), pv[k]);
    }
    val
}

// ---------------------------------------------------------------------------------------
// path runner

pub trait Scenario: Sync {
    fn name(&self) -> String;
    /// Execute one path. Uses the decision API; may unwind.
    fn run(&self);
}

#[derive(Default, Debug)]
pub struct PathResult {
    pub trail: Vec<Dec>,
    pub cut: bool,
    pub cands: Vec<Cand>,
    pub covers: BTreeSet<&'static str>,
    pub oplog: Vec<String>,
    pub panicked: Option<String>,
    pub n_bool: u32,
    pub n_fork: u32,
    pub n_choose: u32,
    pub n_validity: u32,
    pub n_validity_sat: u32,
    pub conc_misses: u32,
    pub conc_divergences: u32,
}

fn run_path_inner(scn: &dyn Scenario, mode: Mode, solver: Option<Solver>, trail: Vec<Dec>, split_depth: Option<usize>, seed: u64, mirror: bool) -> (PathResult, Option<Solver>) {
    let mut solver = solver;
    if let Some(s) = solver.as_mut() {
        s.mirror = mirror && s.has_cvc5();
        s.push();
    }
    let ctx = Ctx {
        mode,
        solver,
        trail,
        pos: 0,
        split_depth,
        cut: false,
        seed,
        leaf_count: 0,
        pc: vec![],
        cands: vec![],
        covers: BTreeSet::new(),
        oplog: vec![],
        n_bool: 0,
        n_fork: 0,
        n_choose: 0,
        n_validity: 0,
        n_validity_sat: 0,
        last_panic: None,
        stop_flag: false,
    };
    CTX.with(|c| *c.borrow_mut() = Some(ctx));
    let r = catch_unwind(AssertUnwindSafe(|| scn.run()));
    let mut ctx = CTX.with(|c| c.borrow_mut().take()).unwrap();
    let mut panicked = None;
    if let Err(p) = r {
        if !p.is::<StopPath>() {
            let msg = take_last_panic().unwrap_or_else(|| "<panic>".into());
            if msg.starts_with("symx:") || msg.starts_with("solver ") || msg.contains("symx context") {
                // tool failure, not a property of the code under test
                if let Some(s) = ctx.solver.as_mut() {
                    s.pop();
                }
                resume_unwind(Box::new(format!("TOOL: {msg}")));
            }
            panicked = Some(msg);
        }
    }
    if panicked.is_none() {
        panicked = ctx.last_panic.take();
    }
    if let Some(s) = ctx.solver.as_mut() {
        s.pop();
        s.mirror = false;
    }
    let (misses, divs) = match &ctx.mode {
        Mode::Conc { misses, divergences, .. } => (*misses, *divergences),
        _ => (0, 0),
    };
    let res = PathResult {
        trail: ctx.trail,
        cut: ctx.cut,
        cands: ctx.cands,
        covers: ctx.covers,
        oplog: ctx.oplog,
        panicked,
        n_bool: ctx.n_bool,
        n_fork: ctx.n_fork,
        n_choose: ctx.n_choose,
        n_validity: ctx.n_validity,
        n_validity_sat: ctx.n_validity_sat,
        conc_misses: misses,
        conc_divergences: divs,
    };
    (res, ctx.solver)
}

/// Concrete replay of a trail under a valuation (no solver involved).
pub fn run_concrete(scn: &dyn Scenario, trail: &[Dec], val: &Valuation, stop_on: Option<&str>) -> PathResult {
    let (r, _) = run_path_inner(scn, Mode::Conc { val: val.clone(), misses: 0, divergences: 0, stop_on: stop_on.map(|s| s.to_string()) }, None, trail.to_vec(), None, 0, false);
    r
}

// ---------------------------------------------------------------------------------------
// exploration driver

#[derive(Clone)]
pub struct Config {
    pub threads: usize,
    pub max_paths: u64,
    pub deadline: Duration,
    pub seed: u64,
    /// mirror one in `cross_every` paths to cvc5 (0 = never)
    pub cross_every: u64,
    pub split_target: usize,
    /// kinds that are listed as known findings: they never stop a stop-on-first-violation run
    pub known_kinds: Vec<String>,
    /// kind prefixes that belong to the property being checked (others are left to their own check and never stop a run)
    pub accept: Vec<String>,
}

#[derive(Clone, Debug)]
pub struct Finding {
    pub scenario: String,
    pub kind: String,
    pub detail: String,
    pub trail: Vec<Dec>,
    pub valuation: Valuation,
    pub oplog: Vec<String>,
    pub count: u64,
}

#[derive(Default, Debug)]
pub struct Report {
    pub scenario: String,
    pub paths: u64,
    pub paths_with_value_fork: u64,
    pub bool_decisions: u64,
    pub value_forks: u64,
    pub choose_decisions: u64,
    pub validity_queries: u64,
    pub validity_sat: u64,
    pub aborted_by_panic: u64,
    pub panic_samples: BTreeMap<String, u64>,
    pub panic_examples: BTreeMap<String, Vec<String>>,
    pub findings: Vec<Finding>,
    pub tool_errors: Vec<String>,
    pub covers: BTreeMap<&'static str, u64>,
    pub exhaustive: bool,
    pub samples: Vec<Vec<String>>,
    pub solver: SolverStats,
    pub crossed_paths: u64,
    pub wall: Duration,
    pub jobs: usize,
    pub max_trail: usize,
}

impl Report {
    fn absorb_path(&mut self, r: &PathResult) {
        self.paths += 1;
        if r.n_fork > 0 {
            self.paths_with_value_fork += 1;
        }
        self.bool_decisions += r.n_bool as u64;
        self.value_forks += r.n_fork as u64;
        self.choose_decisions += r.n_choose as u64;
        self.validity_queries += r.n_validity as u64;
        self.validity_sat += r.n_validity_sat as u64;
        self.max_trail = self.max_trail.max(r.trail.len());
        for c in &r.covers {
            *self.covers.entry(c).or_insert(0) += 1;
        }
        if let Some(p) = &r.panicked {
            self.aborted_by_panic += 1;
            // normalise: node ids and other numbers differ from path to path
            let mut key: String = p.chars().map(|c| if c.is_ascii_digit() { '#' } else { c }).collect();
            if let Some(site) = p.rsplit(" @ ").next() {
                key = format!("{} @ {}", key.rsplit(" @ ").last().unwrap_or("").chars().take(90).collect::<String>(), site);
            }
            if self.panic_samples.len() < 24 || self.panic_samples.contains_key(&key) {
                let e = self.panic_examples.entry(key.clone()).or_insert_with(|| r.oplog.clone());
                if r.oplog.len() < e.len() {
                    *e = r.oplog.clone();
                }
                *self.panic_samples.entry(key).or_insert(0) += 1;
            }
        }
    }
    fn merge(&mut self, o: Report) {
        self.paths += o.paths;
        self.paths_with_value_fork += o.paths_with_value_fork;
        self.bool_decisions += o.bool_decisions;
        self.value_forks += o.value_forks;
        self.choose_decisions += o.choose_decisions;
        self.validity_queries += o.validity_queries;
        self.validity_sat += o.validity_sat;
        self.aborted_by_panic += o.aborted_by_panic;
        self.crossed_paths += o.crossed_paths;
        self.max_trail = self.max_trail.max(o.max_trail);
        for (k, v) in o.panic_samples {
            *self.panic_samples.entry(k).or_insert(0) += v;
        }
        for (k, v) in o.panic_examples {
            let e = self.panic_examples.entry(k).or_insert_with(|| v.clone());
            if v.len() < e.len() {
                *e = v;
            }
        }
        for (k, v) in o.covers {
            *self.covers.entry(k).or_insert(0) += v;
        }
        for f in o.findings {
            if let Some(e) = self.findings.iter_mut().find(|e| e.kind == f.kind) {
                e.count += f.count;
                if f.trail.len() < e.trail.len() {
                    let c = e.count;
                    *e = f;
                    e.count = c;
                }
            } else {
                self.findings.push(f);
            }
        }
        self.tool_errors.extend(o.tool_errors);
        for s in o.samples {
            if self.samples.len() < 6 {
                self.samples.push(s);
            }
        }
        self.solver.queries += o.solver.queries;
        self.solver.sat += o.solver.sat;
        self.solver.unsat += o.solver.unsat;
        self.solver.time += o.solver.time;
        self.solver.cross_queries += o.solver.cross_queries;
        self.solver.cross_time += o.solver.cross_time;
    }
}

fn backtrack(trail: &mut Vec<Dec>, frozen: usize) -> bool {
    loop {
        if trail.len() <= frozen {
            return false;
        }
        match trail.last_mut().unwrap() {
            Dec::Bool { taken, other, .. } if *other => {
                *taken = !*taken;
                *other = false;
                return true;
            }
            Dec::Choose { taken, n, .. } if *taken + 1 < *n => {
                *taken += 1;
                return true;
            }
            _ => {
                trail.pop();
            }
        }
    }
}

struct Worker<'a> {
    scn: &'a dyn Scenario,
    solver: Option<Solver>,
    cfg: &'a Config,
    rep: Report,
    path_counter: &'a AtomicU64,
    stop: &'a AtomicBool,
    start: Instant,
}

impl<'a> Worker<'a> {
    fn one_path(&mut self, trail: Vec<Dec>, split: Option<usize>) -> PathResult {
        let n = self.path_counter.fetch_add(1, Ordering::Relaxed);
        let mirror = self.cfg.cross_every > 0 && (n.wrapping_add(self.cfg.seed)) % self.cfg.cross_every == 0;
        if mirror {
            self.rep.crossed_paths += 1;
        }
        let (res, s) = run_path_inner(self.scn, Mode::Sym, self.solver.take(), trail, split, self.cfg.seed, mirror);
        self.solver = s;
        res
    }
    fn handle(&mut self, res: &PathResult) {
        self.rep.absorb_path(res);
        if self.rep.samples.len() < 3 && res.n_fork > 0 && !res.oplog.is_empty() {
            self.rep.samples.push(res.oplog.clone());
        }
        for cand in &res.cands {
            let val = cand.valuation.clone().unwrap_or_default();
            // replay concretely before believing it
            let conc = run_concrete(self.scn, &res.trail, &val, Some(&cand.kind));
            let reproduced = conc.cands.iter().any(|c| c.kind == cand.kind);
            if reproduced && conc.conc_divergences == 0 {
                let f = Finding {
                    scenario: self.scn.name(),
                    kind: cand.kind.clone(),
                    detail: cand.detail.clone(),
                    trail: res.trail.clone(),
                    valuation: val,
                    oplog: res.oplog[..cand.at_op.min(res.oplog.len())].to_vec(),
                    count: 1,
                };
                if std::env::var("SYMX_STOP_ON_VIOLATION").is_ok() && !self.cfg.known_kinds.contains(&f.kind) && self.cfg.accept.iter().any(|a| f.kind.starts_with(a.as_str())) {
                    // (seed regression: one confirmed violation is enough)
                    self.stop.store(true, Ordering::Relaxed);
                }
                if let Some(e) = self.rep.findings.iter_mut().find(|e| e.kind == f.kind) {
                    e.count += 1;
                    if f.oplog.len() < e.oplog.len() {
                        let c = e.count;
                        *e = f;
                        e.count = c;
                    }
                } else {
                    self.rep.findings.push(f);
                }
            } else if self.rep.tool_errors.len() < 2 {
                self.rep.tool_errors.push(format!(
                    "model for {} did not reproduce concretely (divergences={}, misses={}, concrete cands={:?}, panic={:?}) ops={:?}",
                    cand.kind,
                    conc.conc_divergences,
                    conc.conc_misses,
                    conc.cands.iter().map(|c| c.kind.clone()).collect::<Vec<_>>(),
                    conc.panicked,
                    res.oplog
                ));
            }
        }
    }
    /// DFS below a frozen prefix. Returns false if stopped by budget.
    fn dfs(&mut self, prefix: Vec<Dec>, split: Option<usize>, jobs: &mut Vec<Vec<Dec>>) -> bool {
        let frozen = prefix.len();
        let mut trail = prefix;
        loop {
            if self.stop.load(Ordering::Relaxed) {
                return false;
            }
            if self.path_counter.load(Ordering::Relaxed) >= self.cfg.max_paths || self.start.elapsed() > self.cfg.deadline {
                self.stop.store(true, Ordering::Relaxed);
                return false;
            }
            let res = self.one_path(trail, split);
            if res.cut {
                jobs.push(res.trail.clone());
            } else {
                self.handle(&res);
            }
            trail = res.trail;
            if !backtrack(&mut trail, frozen) {
                return true;
            }
        }
    }
}

pub fn explore(scn: &dyn Scenario, cfg: &Config) -> Report {
    let start = Instant::now();
    let path_counter = AtomicU64::new(0);
    let stop = AtomicBool::new(false);
    let with_cvc5 = cfg.cross_every > 0;
    // phase 1: find a frontier of prefixes by iterative deepening
    let mut final_rep = Report::default();
    let mut jobs: Vec<Vec<Dec>> = vec![];
    let mut complete = true;
    let mut depth = 2usize;
    loop {
        path_counter.store(0, Ordering::Relaxed);
        let mut w = Worker { scn, solver: Some(Solver::new(false)), cfg, rep: Report::default(), path_counter: &path_counter, stop: &stop, start };
        let mut js = vec![];
        let ok = w.dfs(vec![], Some(depth), &mut js);
        let mut rep = w.rep;
        rep.solver = w.solver.as_ref().map(|s| s.stats.clone()).unwrap_or_default();
        if !ok {
            complete = false;
            final_rep = rep;
            jobs = js;
            break;
        }
        if js.is_empty() || js.len() >= cfg.split_target || depth >= 14 {
            final_rep = rep;
            jobs = js;
            break;
        }
        depth += 1;
    }
    final_rep.jobs = jobs.len();
    // phase 2: workers
    if !jobs.is_empty() && complete {
        // interleave so that neighbouring (similar-cost) subtrees go to different workers
        // deterministic shuffle (seed): when a budget cap stops the run early, the subtrees that
        // were explored are a spread sample of the frontier rather than its first entries
        let mut jobs = jobs;
        let mut x = cfg.seed.wrapping_mul(0x9E37_79B9_7F4A_7C15) ^ 0xD1B5_4A32_D192_ED03;
        for i in (1..jobs.len()).rev() {
            x ^= x << 13;
            x ^= x >> 7;
            x ^= x << 17;
            jobs.swap(i, (x % (i as u64 + 1)) as usize);
        }
        let queue = Mutex::new(jobs.into_iter().collect::<VecDeque<_>>());
        let reports = Mutex::new(Vec::<Report>::new());
        let all_ok = AtomicBool::new(true);
        std::thread::scope(|sc| {
            for _ in 0..cfg.threads.max(1) {
                sc.spawn(|| {
                    let mut w = Worker { scn, solver: Some(Solver::new(with_cvc5)), cfg, rep: Report::default(), path_counter: &path_counter, stop: &stop, start };
                    let r = catch_unwind(AssertUnwindSafe(|| loop {
                        let job = { queue.lock().unwrap().pop_front() };
                        let Some(job) = job else { break };
                        let mut none = vec![];
                        if !w.dfs(job, None, &mut none) {
                            all_ok.store(false, Ordering::Relaxed);
                            break;
                        }
                    }));
                    if let Err(p) = r {
                        let msg = p.downcast_ref::<String>().cloned().or_else(take_last_panic).unwrap_or_else(|| "worker died".into());
                        w.rep.tool_errors.push(msg);
                        all_ok.store(false, Ordering::Relaxed);
                        stop.store(true, Ordering::Relaxed);
                    }
                    w.rep.solver = w.solver.as_ref().map(|s| s.stats.clone()).unwrap_or_default();
                    reports.lock().unwrap().push(w.rep);
                });
            }
        });
        for r in reports.into_inner().unwrap() {
            final_rep.merge(r);
        }
        complete = all_ok.load(Ordering::Relaxed);
    }
    final_rep.exhaustive = complete && final_rep.tool_errors.is_empty();
    final_rep.scenario = scn.name();
    final_rep.wall = start.elapsed();
    final_rep
}
