mod c08b;
mod c12b;
mod c14;
mod c19;
mod c20;
mod exec;
mod maps;
mod props;
mod solver;
mod term;
mod world;

use exec::{Config, Dec, Finding, Report, Valuation};
use props::Tier;
use serde_json::{json, Value};
use std::time::{Duration, Instant};

fn arg_val(args: &[String], name: &str) -> Option<String> {
    args.iter().position(|a| a == name).and_then(|i| args.get(i + 1).cloned())
}

fn dec_to_json(d: &Dec) -> Value {
    match d {
        Dec::Bool { taken, both, h, .. } => json!({"b": taken, "both": both, "h": h}),
        Dec::Choose { taken, n, rot } => json!({"c": taken, "n": n, "rot": rot}),
    }
}
fn dec_from_json(j: &Value) -> Dec {
    if let Some(b) = j.get("b") {
        Dec::Bool { taken: b.as_bool().unwrap(), other: false, both: j.get("both").and_then(|x| x.as_bool()).unwrap_or(false), h: 0 }
    } else {
        Dec::Choose { taken: j["c"].as_u64().unwrap() as u32, n: j["n"].as_u64().unwrap() as u32, rot: j["rot"].as_u64().unwrap() as u32 }
    }
}

fn digest(s: &str) -> String {
    let mut h: u64 = 0xcbf29ce484222325;
    for b in s.bytes() {
        h ^= b as u64;
        h = h.wrapping_mul(0x100000001b3);
    }
    format!("{h:016x}")
}

fn write_replay(prop: &str, tier: Tier, profile: &str, f: &Finding) -> String {
    let dir = format!("/verif/replays/{prop}");
    let _ = std::fs::create_dir_all(&dir);
    let j = json!({
        "property": prop,
        "tier": if tier == Tier::Quick { "quick" } else { "thorough" },
        "profile": profile,
        "scenario": f.scenario,
        "kind": f.kind,
        "detail": f.detail,
        "ops": f.oplog,
        "trail": f.trail.iter().map(dec_to_json).collect::<Vec<_>>(),
        "valuation": f.valuation.to_json(),
        "how_to_replay": format!("/verif/check {prop} --replay <this file>"),
    });
    let text = serde_json::to_string_pretty(&j).unwrap();
    let path = format!("{dir}/{}.json", digest(&format!("{}{}{:?}", f.scenario, f.kind, f.oplog)));
    std::fs::write(&path, text).expect("write replay");
    path
}

fn replay(prop: &str, path: &str) -> i32 {
    let text = std::fs::read_to_string(path).expect("read replay file");
    let j: Value = serde_json::from_str(&text).expect("parse replay file");
    let tier = if j["tier"] == "thorough" { Tier::Thorough } else { Tier::Quick };
    let name = j["scenario"].as_str().unwrap();
    let scn = props::scenarios(prop, tier)
        .into_iter()
        .chain(props::scenarios(prop, if tier == Tier::Quick { Tier::Thorough } else { Tier::Quick }))
        .find(|s| s.name() == name);
    let Some(scn) = scn else {
        eprintln!("scenario {name} not found");
        return 2;
    };
    let trail: Vec<Dec> = j["trail"].as_array().unwrap().iter().map(dec_from_json).collect();
    let val = Valuation::from_json(&j["valuation"]);
    let kind = j["kind"].as_str().unwrap();
    let r = exec::run_concrete(&*scn, &trail, &val, Some(kind));
    println!("replay of {path}: ops={:?}", r.oplog);
    println!("  divergences={} table-misses={} panic={:?}", r.conc_divergences, r.conc_misses, r.panicked);
    for c in &r.cands {
        println!("  violation {}: {}", c.kind, c.detail);
    }
    if r.cands.iter().any(|c| c.kind == kind) {
        println!("VIOLATION property={prop} replay={path}");
        1
    } else {
        println!("replay did not reproduce {kind}");
        0
    }
}

struct Known {
    property: String,
    scenario: Option<String>,
    kind: String,
    what: String,
}

fn load_known(path: &str) -> Vec<Known> {
    let Ok(text) = std::fs::read_to_string(path) else { return vec![] };
    let j: Value = serde_json::from_str(&text).expect("known-findings.json does not parse");
    let mut out = vec![];
    for e in j["findings"].as_array().into_iter().flatten() {
        out.push(Known {
            property: e["property"].as_str().unwrap().to_string(),
            scenario: e.get("scenario").and_then(|s| s.as_str()).map(|s| s.to_string()),
            kind: e["kind"].as_str().unwrap().to_string(),
            what: e["what"].as_str().unwrap_or("").to_string(),
        });
    }
    out
}

/// finding kinds that count for a property's verdict (monitors of other properties also run in shared scenarios)
fn accept_prefixes(prop: &str) -> Vec<&str> {
    match prop {
        "C10" => vec!["C10", "C07"],
        "C08" => vec!["C08", "C01", "C02"],
        "C12" => vec!["C12", "C01"],
        "C07" => vec!["C07", "C01"],
        "C04" => vec!["C04", "C14/panic", "C15/panic", "C16/panic", "C20/panic", "C12/panic"],
        p => vec![p],
    }
}

fn main() {
    let args: Vec<String> = std::env::args().collect();
    if args.len() < 2 {
        eprintln!("usage: symx <PROP> [--tier quick|thorough] [--seed N] [--threads N] [--only <scenario substring>] [--replay file] [--evidence path] [--known path] [--profile name]");
        std::process::exit(2);
    }
    exec::install_panic_hook();
    let prop = args[1].clone();
    if let Some(p) = arg_val(&args, "--run-trail") {
        let text = std::fs::read_to_string(&p).expect("read trail file");
        let j: Value = serde_json::from_str(&text).expect("parse trail file");
        let name = j["scenario"].as_str().unwrap();
        let scn = props::scenarios(&prop, Tier::Quick).into_iter().chain(props::scenarios(&prop, Tier::Thorough)).find(|s| s.name() == name).expect("scenario not found");
        let trail: Vec<Dec> = j["trail"].as_array().unwrap().iter().map(dec_from_json).collect();
        let r = exec::run_trail(&*scn, trail);
        println!("trail re-executed without abort: ops={:?} panic={:?}", r.oplog, r.panicked);
        std::process::exit(0);
    }
    if let Some(p) = arg_val(&args, "--replay") {
        std::process::exit(replay(&prop, &p));
    }
    let tier = match arg_val(&args, "--tier").or_else(|| std::env::var("VERIF_TIER").ok()).as_deref() {
        Some("thorough") => Tier::Thorough,
        _ => Tier::Quick,
    };
    let seed: u64 = arg_val(&args, "--seed").or_else(|| std::env::var("VERIF_SEED").ok()).and_then(|s| s.parse().ok()).unwrap_or(0);
    let threads: usize = arg_val(&args, "--threads").and_then(|s| s.parse().ok()).unwrap_or_else(|| std::thread::available_parallelism().map(|n| n.get()).unwrap_or(4));
    let only = arg_val(&args, "--only");
    let profile = arg_val(&args, "--profile").unwrap_or_else(|| "dbg".into());
    // a run restricted with --only is a debugging aid: it must not replace the evidence of the full check
    let evidence_path = arg_val(&args, "--evidence").map(|p| if only.is_some() { format!("{p}.partial") } else { p });
    let known = load_known(&arg_val(&args, "--known").unwrap_or_else(|| "/verif/known-findings.json".into()));
    let budget: u64 = arg_val(&args, "--budget-s").and_then(|s| s.parse().ok()).unwrap_or(if tier == Tier::Quick { 480 } else { 3000 });

    let start = Instant::now();
    let mut scns = props::scenarios(&prop, tier);
    if let Some(o) = &only {
        scns.retain(|s| s.name().contains(o.as_str()));
    }
    if scns.is_empty() {
        eprintln!("no scenarios for {prop}");
        std::process::exit(2);
    }
    let meta = props::meta(&prop, tier);
    let n_scn = scns.len() as u64;
    let mut reports: Vec<Report> = vec![];
    let mut tool_errors: Vec<String> = vec![];
    for (k, scn) in scns.iter().enumerate() {
        if std::env::var("SYMX_STOP_ON_VIOLATION").is_ok() && reports.iter().any(|r| r.findings.iter().any(|f| accept_prefixes(prop.as_str()).iter().any(|a| f.kind.starts_with(a)) && !known.iter().any(|k| k.property == prop && k.kind == f.kind))) {
            break;
        }
        // remaining budget split evenly over the remaining scenarios
        let left = budget.saturating_sub(start.elapsed().as_secs());
        // a scenario may use up to three times its fair share of what is left (at least 20 s)
        let share = (3 * left / (n_scn - k as u64)).max(20).min(left.max(5));
        let cfg = Config { threads, max_paths: u64::MAX, deadline: Duration::from_secs(share), seed, cross_every: if tier == Tier::Quick { 50 } else { 10 }, split_target: threads * 12, known_kinds: known.iter().filter(|k| k.property == prop).map(|k| k.kind.clone()).collect(), accept: accept_prefixes(prop.as_str()).iter().map(|s| s.to_string()).collect() };
        let r = std::panic::catch_unwind(std::panic::AssertUnwindSafe(|| exec::explore(&**scn, &cfg)));
        match r {
            Ok(rep) => {
                eprintln!(
                    "[{}] paths={} forks={} validity={} (sat {}) solver_q={} solver_s={:.1} wall={:.1}s exhaustive={} jobs={} panics={} findings={}",
                    rep.scenario,
                    rep.paths,
                    rep.value_forks,
                    rep.validity_queries,
                    rep.validity_sat,
                    rep.solver.queries,
                    rep.solver.time.as_secs_f64(),
                    rep.wall.as_secs_f64(),
                    rep.exhaustive,
                    rep.jobs,
                    rep.aborted_by_panic,
                    rep.findings.len()
                );
                for (k, v) in &rep.panic_examples {
                    eprintln!("  panic[{}x] {k}\n    e.g. {v:?}", rep.panic_samples.get(k).copied().unwrap_or(0));
                }
                tool_errors.extend(rep.tool_errors.iter().cloned());
                reports.push(rep);
            }
            Err(p) => {
                let msg = p.downcast_ref::<String>().cloned().or_else(exec::take_last_panic).unwrap_or_else(|| "explore died".into());
                tool_errors.push(format!("{}: {msg}", scn.name()));
            }
        }
    }

    // aggregate
    let mut paths = 0u64;
    let mut nontrivial = 0u64;
    let mut forks = 0u64;
    let mut validity = 0u64;
    let mut validity_sat = 0u64;
    let mut solver_q = 0u64;
    let mut solver_s = 0f64;
    let mut cross_q = 0u64;
    let mut cross_s = 0f64;
    let mut crossed = 0u64;
    let mut panics = 0u64;
    let mut exhaustive = true;
    let mut covers: std::collections::BTreeMap<String, u64> = Default::default();
    let mut samples: Vec<Value> = vec![];
    let mut per_scn: Vec<Value> = vec![];
    let mut panic_samples: std::collections::BTreeMap<String, u64> = Default::default();
    for r in &reports {
        paths += r.paths;
        nontrivial += r.paths_with_value_fork;
        forks += r.value_forks;
        validity += r.validity_queries;
        validity_sat += r.validity_sat;
        solver_q += r.solver.queries;
        solver_s += r.solver.time.as_secs_f64();
        cross_q += r.solver.cross_queries;
        cross_s += r.solver.cross_time.as_secs_f64();
        crossed += r.crossed_paths;
        panics += r.aborted_by_panic;
        exhaustive &= r.exhaustive;
        for (k, v) in &r.covers {
            *covers.entry(k.to_string()).or_insert(0) += v;
        }
        for (k, v) in &r.panic_samples {
            *panic_samples.entry(k.clone()).or_insert(0) += v;
        }
        for s in r.samples.iter().take(1) {
            samples.push(json!({"scenario": r.scenario, "ops": s}));
        }
        per_scn.push(json!({"profile": profile, "scenario": r.scenario, "paths": r.paths, "paths_with_value_fork": r.paths_with_value_fork, "value_forks": r.value_forks, "validity_queries": r.validity_queries, "exhaustive": r.exhaustive, "wall_s": r.wall.as_secs_f64(), "max_decisions_on_a_path": r.max_trail, "subtree_jobs": r.jobs, "paths_aborted_by_panic": r.aborted_by_panic}));
    }
    // vacuity guard
    for c in &meta.must_cover {
        if exhaustive && covers.get(*c).copied().unwrap_or(0) == 0 && only.is_none() {
            tool_errors.push(format!("vacuity: situation '{c}' was never reached"));
        }
    }

    // findings: known vs new
    let mut new_violations = 0;
    let mut known_hits: Vec<Value> = vec![];
    let mut lines: Vec<String> = vec![];
    let accept: Vec<&str> = accept_prefixes(prop.as_str());
    for r in &reports {
        for f in &r.findings {
            if !accept.iter().any(|a| f.kind.starts_with(a)) {
                // found by a monitor that belongs to another property's check: not this check's verdict
                eprintln!("note: {} in {} is outside the scope of {prop} and left to its own check", f.kind, f.scenario);
                continue;
            }
            let k = known.iter().find(|k| k.property == prop && k.kind == f.kind && k.scenario.as_ref().map_or(true, |s| f.scenario.contains(s.as_str())));
            match k {
                Some(k) => {
                    lines.push(format!("KNOWN-FINDING: property={prop} {} [{} in {}; {} paths]", k.what, f.kind, f.scenario, f.count));
                    known_hits.push(json!({"kind": f.kind, "scenario": f.scenario, "paths": f.count}));
                }
                None => {
                    let path = write_replay(&prop, tier, &profile, f);
                    new_violations += 1;
                    eprintln!("violation {} in {}: {}\n  ops: {:?}", f.kind, f.scenario, f.detail, f.oplog);
                    lines.push(format!("VIOLATION property={prop} replay={path}"));
                }
            }
        }
    }
    let wall = start.elapsed().as_secs_f64();
    if samples.is_empty() {
        samples.push(json!({"note": "no sample recorded"}));
    }
    let ev = json!({
        "property_id": prop,
        "tier": if tier == Tier::Quick { "quick" } else { "thorough" },
        "seed": seed,
        "level": meta.level,
        "coverage": {
            "explanation": format!("bounded dynamic symbolic execution of the real engine (profile {profile}): every path of the decision tree within the bounds is executed natively with symbolic values; value-dependent branches and every property assertion are decided by z3 under the path condition. Bounds: {}", meta.bounds),
            "evaluations": paths,
            "distinct_nontrivial": nontrivial,
            "rule": meta.rule,
            "samples": samples,
            "exhaustive": exhaustive,
            "paths": paths,
            "value_forks": forks,
            "validity_queries": validity,
            "validity_queries_sat": validity_sat,
            "solver_queries": solver_q,
            "solver_s": solver_s,
            "cross_checked_paths_cvc5": crossed,
            "cross_check_queries": cross_q,
            "cross_check_s": cross_s,
            "paths_aborted_by_panic": panics,
            "panic_sites": panic_samples,
            "reach_counters": covers,
            "functions_encoded": meta.functions,
            "bounds": meta.bounds,
            "outside_the_claim": meta.outside,
            "scenarios": per_scn,
            "profile": profile,
            "known_findings_hit": known_hits,
            "tool_errors": tool_errors,
            "engine": "symx",
            "threads": threads,
        },
        "assumptions": meta.assumptions,
        "wall_s": wall,
        "violations": new_violations,
    });
    let mut ev = ev;
    let mut prev_exit = 0;
    if args.iter().any(|a| a == "--merge") {
        if let Some(p) = &evidence_path {
            if let Ok(text) = std::fs::read_to_string(p) {
                if let Ok(old) = serde_json::from_str::<Value>(&text) {
                    merge_evidence(&mut ev, &old);
                    prev_exit = old["coverage"]["exit_code"].as_i64().unwrap_or(0) as i32;
                }
            }
        }
    }
    let this_exit = if new_violations > 0 { 1 } else if !tool_errors.is_empty() { 2 } else { 0 };
    let final_exit = if this_exit == 1 || prev_exit == 1 { 1 } else { this_exit.max(prev_exit) };
    ev["coverage"]["exit_code"] = json!(final_exit);
    if let Some(p) = evidence_path {
        if let Some(dir) = std::path::Path::new(&p).parent() {
            let _ = std::fs::create_dir_all(dir);
        }
        std::fs::write(&p, serde_json::to_string_pretty(&ev).unwrap()).expect("write evidence");
    }
    for l in &lines {
        println!("{l}");
    }
    println!("{prop} [{}] paths={paths} nontrivial={nontrivial} value_forks={forks} validity_queries={validity} solver_s={solver_s:.1} wall={wall:.1}s exhaustive={exhaustive} violations={new_violations} tool_errors={}", if tier == Tier::Quick { "quick" } else { "thorough" }, tool_errors.len());
    for e in tool_errors.iter().take(6) {
        eprintln!("TOOL-ERROR: {e}");
    }
    std::process::exit(final_exit);
}

/// Add the numbers of an earlier run (other build profile, same check invocation) to `ev`.
fn merge_evidence(ev: &mut Value, old: &Value) {
    let sum_keys = ["evaluations", "distinct_nontrivial", "paths", "value_forks", "validity_queries", "validity_queries_sat", "solver_queries", "cross_checked_paths_cvc5", "cross_check_queries", "paths_aborted_by_panic"];
    for k in sum_keys {
        let a = ev["coverage"][k].as_u64().unwrap_or(0) + old["coverage"][k].as_u64().unwrap_or(0);
        ev["coverage"][k] = json!(a);
    }
    for k in ["solver_s", "cross_check_s"] {
        let a = ev["coverage"][k].as_f64().unwrap_or(0.0) + old["coverage"][k].as_f64().unwrap_or(0.0);
        ev["coverage"][k] = json!(a);
    }
    for k in ["samples", "scenarios", "known_findings_hit", "tool_errors"] {
        let mut v = old["coverage"][k].as_array().cloned().unwrap_or_default();
        v.extend(ev["coverage"][k].as_array().cloned().unwrap_or_default());
        ev["coverage"][k] = json!(v);
    }
    for k in ["reach_counters", "panic_sites"] {
        let mut m = old["coverage"][k].as_object().cloned().unwrap_or_default();
        for (kk, vv) in ev["coverage"][k].as_object().cloned().unwrap_or_default() {
            let a = m.get(&kk).and_then(|x| x.as_u64()).unwrap_or(0) + vv.as_u64().unwrap_or(0);
            m.insert(kk, json!(a));
        }
        ev["coverage"][k] = json!(m);
    }
    let ex = ev["coverage"]["exhaustive"].as_bool().unwrap_or(false) && old["coverage"]["exhaustive"].as_bool().unwrap_or(false);
    ev["coverage"]["exhaustive"] = json!(ex);
    ev["coverage"]["explanation"] = json!(format!("{} || ALSO RUN under the other build profile: {}", ev["coverage"]["explanation"].as_str().unwrap_or(""), old["coverage"]["explanation"].as_str().unwrap_or("")));
    ev["wall_s"] = json!(ev["wall_s"].as_f64().unwrap_or(0.0) + old["wall_s"].as_f64().unwrap_or(0.0));
    ev["violations"] = json!(ev["violations"].as_i64().unwrap_or(0) + old["violations"].as_i64().unwrap_or(0));
}
