//! C15 / C17 / C18: incremental-map diff-based operators over BTreeMap, Rc<BTreeMap> and
//! im_rc::OrdMap with symbolic values. Keys are small concrete integers chosen by the history;
//! values are symbolic, user functions are uninterpreted, folds use + / -.
use crate::exec::{app, catch, choose, cover, decide, decide_pred, fresh, op_log, require, violation, Scenario};
use crate::term::{F, SV};
use im_rc::OrdMap;
use incremental::{Incr, IncrState, Observer, Value, Var};
use incremental_map::prelude::*;
use std::cell::RefCell;
use std::collections::{BTreeMap, BTreeSet};
use std::marker::PhantomData;
use std::mem::ManuallyDrop;
use std::rc::Rc;

pub type B<V> = BTreeMap<u8, V>;

pub trait MapT<V: Value>: Value {
    fn from_b(b: &B<V>) -> Self;
    fn to_b(&self) -> B<V>;
    const NAME: &'static str;
}
impl<V: Value> MapT<V> for B<V> {
    fn from_b(b: &B<V>) -> Self {
        b.clone()
    }
    fn to_b(&self) -> B<V> {
        self.clone()
    }
    const NAME: &'static str = "BTreeMap";
}
impl<V: Value> MapT<V> for Rc<B<V>> {
    fn from_b(b: &B<V>) -> Self {
        Rc::new(b.clone())
    }
    fn to_b(&self) -> B<V> {
        (**self).clone()
    }
    const NAME: &'static str = "RcBTreeMap";
}
impl<V: Value> MapT<V> for OrdMap<u8, V> {
    fn from_b(b: &B<V>) -> Self {
        b.iter().map(|(k, v)| (*k, v.clone())).collect()
    }
    fn to_b(&self) -> B<V> {
        self.iter().map(|(k, v)| (*k, v.clone())).collect()
    }
    const NAME: &'static str = "OrdMap";
}

fn lit(k: u8) -> SV {
    SV::lit(k as i64)
}

// function / predicate symbols
const F_MAP: u16 = 0; // g(v)
const F_MAPI: u16 = 1; // g(k, v)
const F_W: u16 = 2; // fold weight w(k, v)
const F_ML: u16 = 3;
const F_MR: u16 = 4;
const F_MB: u16 = 5;
const F_PA: u16 = 6;
const F_PB: u16 = 7;
const P_FILTER: u16 = 0;
const P_FILTERI: u16 = 1;
const P_MERGE: u16 = 2;
const P_PART: u16 = 3;

#[derive(Clone, Copy, Debug, PartialEq, Eq, PartialOrd, Ord)]
pub enum Role {
    F,
    Add,
    Remove,
    Update,
    Merge,
}

#[derive(Clone, Copy, Debug, PartialEq, Eq)]
pub enum OpKind {
    Map,
    FilterMap,
    Mapi,
    FilterMapi,
    /// `keyed`: the accumulator is indexed by key (add overwrites the key's slot, remove deletes it) instead of
    /// a commutative sum: invertible, but sensitive to the order of remove(old) / add(new) for one key
    Fold { update: bool, revert: bool, keyed: bool },
    /// incr_filter_mapi followed by incr_map: the second operator's input is another operator's output
    ChainFilterThenMap,
}

type CallLog = Rc<RefCell<Vec<(Role, u8)>>>;

/// expected output entry of the map-like operators for (k, v)
fn map_like_expected(op: OpKind, k: u8, v: &SV) -> Option<SV> {
    match op {
        OpKind::Map => Some(app(F_MAP, &[v.clone()])),
        OpKind::Mapi => Some(app(F_MAPI, &[lit(k), v.clone()])),
        OpKind::FilterMap => {
            if decide_pred(P_FILTER, &[v.clone()]) {
                Some(app(F_MAP, &[v.clone()]))
            } else {
                None
            }
        }
        OpKind::FilterMapi => {
            if decide_pred(P_FILTERI, &[lit(k), v.clone()]) {
                Some(app(F_MAPI, &[lit(k), v.clone()]))
            } else {
                None
            }
        }
        OpKind::ChainFilterThenMap => {
            if decide_pred(P_FILTERI, &[lit(k), v.clone()]) {
                Some(app(F_MAP, &[app(F_MAPI, &[lit(k), v.clone()])]))
            } else {
                None
            }
        }
        OpKind::Fold { .. } => unreachable!(),
    }
}

fn w(k: u8, v: &SV) -> SV {
    app(F_W, &[lit(k), v.clone()])
}

const F_CONS: u16 = 20;

/// key-indexed accumulator encoded as a term: cons(k1, e1, cons(k2, e2, ... init)) with ascending keys
fn assoc_decode(t: &SV) -> (Vec<(u8, SV)>, SV) {
    let mut cur = t.clone();
    let mut out = vec![];
    loop {
        let next = match &*cur.0 {
            crate::term::T::App(f, args) if *f == F_CONS && args.len() == 3 => match &*args[0].0 {
                crate::term::T::Lit(k) => {
                    out.push((*k as u8, args[1].clone()));
                    args[2].clone()
                }
                _ => break,
            },
            _ => break,
        };
        cur = next;
    }
    (out, cur)
}

fn assoc_encode(mut entries: Vec<(u8, SV)>, tail: SV) -> SV {
    entries.sort_by_key(|e| e.0);
    let mut t = tail;
    for (k, e) in entries.into_iter().rev() {
        t = app(F_CONS, &[lit(k), e, t]);
    }
    t
}

fn assoc_add(acc: &SV, k: u8, e: SV) -> SV {
    let (mut es, tail) = assoc_decode(acc);
    es.retain(|x| x.0 != k);
    es.push((k, e));
    assoc_encode(es, tail)
}

fn assoc_remove(acc: &SV, k: u8) -> SV {
    let (mut es, tail) = assoc_decode(acc);
    es.retain(|x| x.0 != k);
    assoc_encode(es, tail)
}

enum Out<M: MapT<SV>> {
    MapLike(Incr<M>, Option<Observer<M>>),
    Fold(Incr<SV>, Option<Observer<SV>>),
}

/// keys whose presence or value differs between two maps (value difference decided by the solver)
fn diff_keys(old: &B<SV>, new: &B<SV>) -> BTreeSet<u8> {
    let mut s = BTreeSet::new();
    for k in old.keys().chain(new.keys()) {
        match (old.get(k), new.get(k)) {
            (Some(a), Some(b)) => {
                if !decide(F::eq(a, b)) {
                    s.insert(*k);
                }
            }
            _ => {
                s.insert(*k);
            }
        }
    }
    s
}

pub struct MapOps<M> {
    pub op: OpKind,
    pub len: usize,
    pub keys: u8,
    /// warm start (not counted): all keys present, observed, stabilised, emptied, stabilised
    pub warm_emptied: bool,
    pub ph: PhantomData<fn() -> M>,
}

impl<M> Scenario for MapOps<M>
where
    M: MapT<SV> + SymmetricFoldMap<u8, SV> + SymmetricMapMap<u8, SV, OutputMap<SV> = M>,
{
    fn name(&self) -> String {
        format!("maps/{:?}/{}{}", self.op, M::NAME, if self.warm_emptied { "/warm_emptied" } else { "" }).replace(' ', "")
    }
    fn run(&self) {
        let op = self.op;
        let state = IncrState::new();
        let mut model: B<SV> = B::new();
        let input: Var<M> = state.var(M::from_b(&model));
        let log: CallLog = Rc::new(RefCell::new(vec![]));
        let c0 = fresh();
        let out: Out<M> = {
            let l = log.clone();
            match op {
                OpKind::Map => Out::MapLike(
                    input.incr_map(move |v: &SV| {
                        l.borrow_mut().push((Role::F, 255));
                        app(F_MAP, &[v.clone()])
                    }),
                    None,
                ),
                OpKind::FilterMap => Out::MapLike(
                    input.incr_filter_map(move |v: &SV| {
                        l.borrow_mut().push((Role::F, 255));
                        if decide_pred(P_FILTER, &[v.clone()]) {
                            Some(app(F_MAP, &[v.clone()]))
                        } else {
                            None
                        }
                    }),
                    None,
                ),
                OpKind::Mapi => Out::MapLike(
                    input.incr_mapi(move |k: &u8, v: &SV| {
                        l.borrow_mut().push((Role::F, *k));
                        app(F_MAPI, &[lit(*k), v.clone()])
                    }),
                    None,
                ),
                OpKind::FilterMapi => Out::MapLike(
                    input.incr_filter_mapi(move |k: &u8, v: &SV| {
                        l.borrow_mut().push((Role::F, *k));
                        if decide_pred(P_FILTERI, &[lit(*k), v.clone()]) {
                            Some(app(F_MAPI, &[lit(*k), v.clone()]))
                        } else {
                            None
                        }
                    }),
                    None,
                ),
                OpKind::ChainFilterThenMap => {
                    let first: Incr<M> = input.incr_filter_mapi(move |k: &u8, v: &SV| {
                        if decide_pred(P_FILTERI, &[lit(*k), v.clone()]) {
                            Some(app(F_MAPI, &[lit(*k), v.clone()]))
                        } else {
                            None
                        }
                    });
                    Out::MapLike(
                        first.incr_map(move |v: &SV| {
                            l.borrow_mut().push((Role::F, 255));
                            app(F_MAP, &[v.clone()])
                        }),
                        None,
                    )
                }
                OpKind::Fold { update, revert, keyed } => {
                    let (l1, l2, l3) = (log.clone(), log.clone(), log.clone());
                    let add = move |acc: SV, k: &u8, v: &SV| {
                        l1.borrow_mut().push((Role::Add, *k));
                        if keyed {
                            assoc_add(&acc, *k, w(*k, v))
                        } else {
                            acc.add(&w(*k, v))
                        }
                    };
                    let remove = move |acc: SV, k: &u8, v: &SV| {
                        l2.borrow_mut().push((Role::Remove, *k));
                        if keyed {
                            assoc_remove(&acc, *k)
                        } else {
                            acc.sub(&w(*k, v))
                        }
                    };
                    let n = if update {
                        input.incr_unordered_fold_update(
                            c0.clone(),
                            add,
                            remove,
                            move |acc: SV, k: &u8, old: &SV, new: &SV| {
                                l3.borrow_mut().push((Role::Update, *k));
                                if keyed {
                                    assoc_add(&acc, *k, w(*k, new))
                                } else {
                                    acc.add(&w(*k, new).sub(&w(*k, old)))
                                }
                            },
                            revert,
                        )
                    } else {
                        input.incr_unordered_fold(c0.clone(), add, remove, revert)
                    };
                    Out::Fold(n, None)
                }
            }
        };
        struct Keep<M: MapT<SV>> {
            state: IncrState,
            input: Var<M>,
            out: Out<M>,
        }
        let mut keep = ManuallyDrop::new(Keep { state, input, out });
        let r = catch(|| {
            let mut dirty = false;
            let mut in_use = false;
            let mut seen: Option<B<SV>> = None;
            if op == OpKind::ChainFilterThenMap {
                // warm start (not counted): all keys present, output observed, one stabilise
                for k in 0..self.keys {
                    model.insert(k, fresh());
                }
                keep.input.set(M::from_b(&model));
                if let Out::MapLike(n, o) = &mut keep.out {
                    *o = Some(n.observe());
                }
                keep.state.stabilise();
                in_use = true;
                seen = Some(model.iter().filter(|(k, v)| decide_pred(P_FILTERI, &[lit(**k), (*v).clone()])).map(|(k, v)| (*k, app(F_MAPI, &[lit(*k), v.clone()]))).collect());
                log.borrow_mut().clear();
                op_log("(warm start: Refill, Observe, Stabilise)".into());
            }
            if self.warm_emptied {
                for k in 0..self.keys {
                    model.insert(k, fresh());
                }
                keep.input.set(M::from_b(&model));
                match &mut keep.out {
                    Out::MapLike(n, o) => *o = Some(n.observe()),
                    Out::Fold(n, o) => *o = Some(n.observe()),
                }
                keep.state.stabilise();
                model.clear();
                keep.input.set(M::from_b(&model));
                keep.state.stabilise();
                in_use = true;
                seen = Some(B::new());
                log.borrow_mut().clear();
                cover("operator-emptied-before-the-history");
                op_log("(warm start: Refill, Observe, Stabilise, Clear, Stabilise)".into());
            }
            for step in 0..=self.len {
                #[derive(Clone, Debug)]
                enum A {
                    Insert(u8),
                    InsertEqual(u8),
                    Remove(u8),
                    Clear,
                    Refill,
                    Observe,
                    Unobserve,
                    Stabilise,
                }
                let observed = match &keep.out {
                    Out::MapLike(_, o) => o.is_some(),
                    Out::Fold(_, o) => o.is_some(),
                };
                let a = if step == self.len {
                    if !dirty {
                        break;
                    }
                    A::Stabilise
                } else {
                    let mut acts = vec![];
                    let small = op == OpKind::ChainFilterThenMap;
                    for k in 0..self.keys {
                        acts.push(A::Insert(k));
                        if model.contains_key(&k) {
                            if !small {
                                acts.push(A::InsertEqual(k));
                            }
                            acts.push(A::Remove(k));
                        }
                    }
                    if !model.is_empty() && !small {
                        acts.push(A::Clear);
                    }
                    if !small {
                        acts.push(A::Refill);
                    }
                    acts.push(if observed { A::Unobserve } else { A::Observe });
                    if dirty {
                        acts.push(A::Stabilise);
                    }
                    acts[choose(acts.len())].clone()
                };
                op_log(format!("{a:?}"));
                match a {
                    A::Insert(k) => {
                        model.insert(k, fresh());
                        keep.input.set(M::from_b(&model));
                        dirty = true;
                    }
                    A::InsertEqual(k) => {
                        let v = model[&k].clone();
                        model.insert(k, v);
                        keep.input.set(M::from_b(&model));
                        dirty = true;
                        cover("equal-value-written-again");
                    }
                    A::Remove(k) => {
                        model.remove(&k);
                        keep.input.set(M::from_b(&model));
                        dirty = true;
                    }
                    A::Clear => {
                        model.clear();
                        keep.input.set(M::from_b(&model));
                        dirty = true;
                        cover("map-emptied");
                    }
                    A::Refill => {
                        for k in 0..self.keys {
                            model.insert(k, fresh());
                        }
                        keep.input.set(M::from_b(&model));
                        dirty = true;
                    }
                    A::Observe => {
                        match &mut keep.out {
                            Out::MapLike(n, o) => *o = Some(n.observe()),
                            Out::Fold(n, o) => *o = Some(n.observe()),
                        }
                        in_use = false;
                        dirty = true;
                        if seen.is_some() {
                            cover("operator-observed-again");
                        }
                    }
                    A::Unobserve => {
                        match &mut keep.out {
                            Out::MapLike(_, o) => *o = None,
                            Out::Fold(_, o) => *o = None,
                        }
                        dirty = true;
                    }
                    A::Stabilise => {
                        log.borrow_mut().clear();
                        keep.state.stabilise();
                        dirty = false;
                        if !observed {
                            if !log.borrow().is_empty() {
                                violation("C17/work-while-unobserved", format!("{} user-function calls in a stabilise without an observer", log.borrow().len()));
                            }
                            continue;
                        }
                        let _ = in_use;
                        in_use = true;
                        // ---- C15: output = plain definition on the current input
                        match &keep.out {
                            Out::MapLike(_, o) => {
                                let got: B<SV> = o.as_ref().unwrap().value().to_b();
                                let mut want: B<SV> = B::new();
                                for (k, v) in &model {
                                    if let Some(x) = map_like_expected(op, *k, v) {
                                        want.insert(*k, x);
                                    }
                                }
                                let gk: Vec<u8> = got.keys().copied().collect();
                                let wk: Vec<u8> = want.keys().copied().collect();
                                if gk != wk {
                                    violation("C15/key-set", format!("output keys {gk:?}, definition gives {wk:?} (input keys {:?})", model.keys().collect::<Vec<_>>()));
                                } else {
                                    for (k, v) in &got {
                                        let e = &want[k];
                                        let (v2, e2, kk) = (v.clone(), e.clone(), *k);
                                        require("C15/entry-value", F::eq(v, e), move || format!("output[{kk}] = {v2:?}, definition gives {e2:?}"));
                                    }
                                }
                            }
                            Out::Fold(_, o) => {
                                let got: SV = o.as_ref().unwrap().value();
                                let mut want = c0.clone();
                                if matches!(op, OpKind::Fold { keyed: true, .. }) {
                                    want = assoc_encode(model.iter().map(|(k, v)| (*k, w(*k, v))).collect(), c0.clone());
                                } else {
                                    for (k, v) in &model {
                                        want = want.add(&w(*k, v));
                                    }
                                }
                                let (g2, w2) = (got.clone(), want.clone());
                                require("C15/fold-value", F::eq(&got, &want), move || format!("fold output {g2:?}, definition gives {w2:?}"));
                            }
                        }
                        // ---- C17: work proportional to the change
                        let calls = log.borrow().clone();
                        // the input of the logged operator: the var's map, or (chain) the first operator's output
                        let cur_in: B<SV> = if op == OpKind::ChainFilterThenMap {
                            model.iter().filter(|(k, v)| decide_pred(P_FILTERI, &[lit(**k), (*v).clone()])).map(|(k, v)| (*k, app(F_MAPI, &[lit(*k), v.clone()]))).collect()
                        } else {
                            model.clone()
                        };
                        let allowed: BTreeSet<u8> = match &seen {
                            None => cur_in.keys().copied().collect(),
                            Some(s) => diff_keys(s, &cur_in),
                        };
                        if seen.as_ref().map_or(false, |s| diff_keys(s, &cur_in).is_empty()) && op == OpKind::ChainFilterThenMap {
                            cover("upstream-edit-left-intermediate-map-unchanged");
                        }
                        let initial = seen.is_none();
                        let mut per: BTreeMap<(Role, u8), u32> = BTreeMap::new();
                        for (role, k) in &calls {
                            *per.entry((*role, *k)).or_insert(0) += 1;
                        }
                        let anon: u32 = per.iter().filter(|((_, k), _)| *k == 255).map(|(_, n)| *n).sum();
                        if anon as usize > allowed.len() {
                            violation("C17/more-calls-than-changed-keys", format!("{anon} calls of the user function, {} keys differ between the previous and the current input ({allowed:?})", allowed.len()));
                        }
                        for ((role, k), n) in &per {
                            if *k == 255 {
                                continue;
                            }
                            if !allowed.contains(k) {
                                violation(&format!("C17/call-for-unchanged-key/{role:?}"), format!("{role:?} was called for key {k}, which does not differ between the previous and the current input (differing: {allowed:?})"));
                            }
                            if *n > 1 {
                                violation(&format!("C17/called-twice-for-one-key/{role:?}"), format!("{role:?} was called {n} times for key {k} in one stabilise"));
                            }
                        }
                        if !calls.is_empty() && !initial {
                            cover("incremental-update-ran-user-function");
                        }
                        seen = Some(cur_in);
                    }
                }
            }
        });
        let k = ManuallyDrop::into_inner(keep);
        match r {
            Ok(()) => {
                if let Err(msg) = catch(move || drop(k)) {
                    crate::exec::note_panic(msg);
                }
            }
            Err(msg) => {
                std::mem::forget(k);
                if msg.rsplit(" @ ").next().map_or(false, |l| l.starts_with("src/")) {
                    panic!("symx: harness panicked: {msg}");
                }
                violation(&format!("C15/panic/{}", crate::world::panic_site(&msg)), msg);
            }
        }
    }
}

// ---------------------------------------------------------------------------------------
// C18 (symx half): symmetric_fold through the public trait, all three map types

pub struct SymFold<M> {
    pub keys: u8,
    pub ph: PhantomData<fn() -> M>,
}

impl<M> Scenario for SymFold<M>
where
    M: MapT<SV> + SymmetricFoldMap<u8, SV>,
{
    fn name(&self) -> String {
        format!("symfold/{}", M::NAME)
    }
    fn run(&self) {
        let mut a: B<SV> = B::new();
        let mut b: B<SV> = B::new();
        let mut desc = vec![];
        for k in 0..self.keys {
            // 0: absent/absent 1: left only 2: right only 3: both, same term 4: both, independent values
            let c = choose(5);
            desc.push(c);
            match c {
                1 => {
                    a.insert(k, fresh());
                }
                2 => {
                    b.insert(k, fresh());
                }
                3 => {
                    let v = fresh();
                    a.insert(k, v.clone());
                    b.insert(k, v);
                }
                4 => {
                    a.insert(k, fresh());
                    b.insert(k, fresh());
                }
                _ => {}
            }
        }
        op_log(format!("per-key shape {desc:?}"));
        let (ma, mb) = (M::from_b(&a), M::from_b(&b));
        #[derive(Debug, Clone)]
        enum D {
            L(SV),
            R(SV),
            U(SV, SV),
        }
        let visited: Vec<(u8, D)> = ma.symmetric_fold(&mb, vec![], |mut acc, (k, d)| {
            acc.push((
                *k,
                match d {
                    DiffElement::Left(v) => D::L(v.clone()),
                    DiffElement::Right(v) => D::R(v.clone()),
                    DiffElement::Unequal(x, y) => D::U(x.clone(), y.clone()),
                },
            ));
            acc
        });
        // expected
        let mut expected: Vec<(u8, D)> = vec![];
        for k in 0..self.keys {
            match (a.get(&k), b.get(&k)) {
                (Some(x), None) => expected.push((k, D::L(x.clone()))),
                (None, Some(y)) => expected.push((k, D::R(y.clone()))),
                (Some(x), Some(y)) => {
                    if !decide(F::eq(x, y)) {
                        cover("both-present-values-differ");
                        expected.push((k, D::U(x.clone(), y.clone())));
                    } else {
                        cover("both-present-values-equal");
                    }
                }
                (None, None) => {}
            }
        }
        let shape = |v: &Vec<(u8, D)>| -> Vec<(u8, char)> {
            v.iter()
                .map(|(k, d)| {
                    (
                        *k,
                        match d {
                            D::L(_) => 'L',
                            D::R(_) => 'R',
                            D::U(..) => 'U',
                        },
                    )
                })
                .collect()
        };
        if shape(&visited) != shape(&expected) {
            violation("C18/visited-keys", format!("symmetric_fold visited {:?}, expected {:?} (ascending, once each)", shape(&visited), shape(&expected)));
            return;
        }
        if expected.is_empty() {
            cover("nothing-visited-for-equal-maps");
        }
        for ((k, g), (_, e)) in visited.iter().zip(expected.iter()) {
            let f = match (g, e) {
                (D::L(x), D::L(y)) | (D::R(x), D::R(y)) => F::eq(x, y),
                (D::U(x1, x2), D::U(y1, y2)) => F::and(vec![F::eq(x1, y1), F::eq(x2, y2)]),
                _ => F::False,
            };
            let (g2, e2, kk) = (g.clone(), e.clone(), *k);
            require("C18/visited-values", f, move || format!("key {kk}: visited with {g2:?}, expected {e2:?}"));
        }
    }
}

// ---------------------------------------------------------------------------------------
// incr_merge (BTreeMap, OrdMap) and incr_partition / incr_partition_mapi (OrdMap)

#[derive(Clone, Copy, Debug, PartialEq, Eq)]
pub enum Op2 {
    MergeBTree,
    MergeOrd,
    PartitionOrd,
    PartitionMapiOrd,
}

pub struct MapOps2 {
    pub op: Op2,
    pub len: usize,
    pub keys: u8,
}

fn merge_fn(log: &CallLog, k: &u8, e: MergeElement<&SV, &SV>) -> Option<SV> {
    log.borrow_mut().push((Role::Merge, *k));
    match e {
        MergeElement::Left(a) => Some(app(F_ML, &[lit(*k), a.clone()])),
        MergeElement::Right(b) => Some(app(F_MR, &[lit(*k), b.clone()])),
        MergeElement::Both(a, b) => {
            if decide_pred(P_MERGE, &[a.clone(), b.clone()]) {
                Some(app(F_MB, &[a.clone(), b.clone()]))
            } else {
                None
            }
        }
    }
}

fn merge_expected(k: u8, a: Option<&SV>, b: Option<&SV>) -> Option<SV> {
    match (a, b) {
        (Some(a), None) => Some(app(F_ML, &[lit(k), a.clone()])),
        (None, Some(b)) => Some(app(F_MR, &[lit(k), b.clone()])),
        (Some(a), Some(b)) => {
            if decide_pred(P_MERGE, &[a.clone(), b.clone()]) {
                Some(app(F_MB, &[a.clone(), b.clone()]))
            } else {
                None
            }
        }
        (None, None) => None,
    }
}

enum Out2 {
    B(Incr<B<SV>>, Option<Observer<B<SV>>>),
    O(Incr<OrdMap<u8, SV>>, Option<Observer<OrdMap<u8, SV>>>),
    P(Incr<(OrdMap<u8, SV>, OrdMap<u8, SV>)>, Option<Observer<(OrdMap<u8, SV>, OrdMap<u8, SV>)>>),
}

enum In2 {
    B(Var<B<SV>>, Var<B<SV>>),
    O(Var<OrdMap<u8, SV>>, Var<OrdMap<u8, SV>>),
}

impl Scenario for MapOps2 {
    fn name(&self) -> String {
        format!("maps/{:?}", self.op)
    }
    fn run(&self) {
        let op = self.op;
        let state = IncrState::new();
        let mut model: [B<SV>; 2] = [B::new(), B::new()];
        let log: CallLog = Rc::new(RefCell::new(vec![]));
        let l = log.clone();
        let (inp, out): (In2, Out2) = match op {
            Op2::MergeBTree => {
                let (a, b) = (state.var(B::<SV>::new()), state.var(B::<SV>::new()));
                let n = a.incr_merge(&b.watch(), move |k, e| merge_fn(&l, k, e));
                (In2::B(a, b), Out2::B(n, None))
            }
            Op2::MergeOrd => {
                let (a, b) = (state.var(OrdMap::<u8, SV>::new()), state.var(OrdMap::<u8, SV>::new()));
                let n = a.incr_merge(&b.watch(), move |k, e| merge_fn(&l, k, e));
                (In2::O(a, b), Out2::O(n, None))
            }
            Op2::PartitionOrd => {
                let (a, b) = (state.var(OrdMap::<u8, SV>::new()), state.var(OrdMap::<u8, SV>::new()));
                let n = a.incr_partition(move |k: &u8, v: &SV| {
                    l.borrow_mut().push((Role::F, *k));
                    decide_pred(P_PART, &[lit(*k), v.clone()])
                });
                (In2::O(a, b), Out2::P(n, None))
            }
            Op2::PartitionMapiOrd => {
                let (a, b) = (state.var(OrdMap::<u8, SV>::new()), state.var(OrdMap::<u8, SV>::new()));
                let n = a.incr_partition_mapi(move |k: &u8, v: &SV| {
                    l.borrow_mut().push((Role::F, *k));
                    if decide_pred(P_PART, &[lit(*k), v.clone()]) {
                        Either::Left(app(F_PA, &[lit(*k), v.clone()]))
                    } else {
                        Either::Right(app(F_PB, &[lit(*k), v.clone()]))
                    }
                });
                (In2::O(a, b), Out2::P(n, None))
            }
        };
        let two_inputs = matches!(op, Op2::MergeBTree | Op2::MergeOrd);
        // a plain dependant of the merge output (a copy of the map): it must follow every change of the merge
        let down: Option<Incr<B<SV>>> = match &out {
            Out2::B(n, _) => Some(n.map(|m: &B<SV>| m.clone())),
            Out2::O(n, _) => Some(n.map(|m: &OrdMap<u8, SV>| m.to_b())),
            Out2::P(..) => None,
        };
        struct Keep {
            state: IncrState,
            inp: In2,
            out: Out2,
            down: Option<Incr<B<SV>>>,
            down_obs: Option<Observer<B<SV>>>,
        }
        let mut keep = ManuallyDrop::new(Keep { state, inp, out, down, down_obs: None });
        let r = catch(|| {
            let mut dirty = false;
            let mut seen: Option<[B<SV>; 2]> = None;
            for step in 0..=self.len {
                #[derive(Clone, Debug)]
                enum A {
                    Insert(usize, u8),
                    Remove(usize, u8),
                    Clear(usize),
                    Observe,
                    Unobserve,
                    Stabilise,
                }
                let observed = match &keep.out {
                    Out2::B(_, o) => o.is_some(),
                    Out2::O(_, o) => o.is_some(),
                    Out2::P(_, o) => o.is_some(),
                };
                let a = if step == self.len {
                    if !dirty {
                        break;
                    }
                    A::Stabilise
                } else {
                    let mut acts = vec![];
                    for side in 0..if two_inputs { 2 } else { 1 } {
                        for k in 0..self.keys {
                            acts.push(A::Insert(side, k));
                            if model[side].contains_key(&k) {
                                acts.push(A::Remove(side, k));
                            }
                        }
                        if !model[side].is_empty() {
                            acts.push(A::Clear(side));
                        }
                    }
                    acts.push(if observed { A::Unobserve } else { A::Observe });
                    if dirty {
                        acts.push(A::Stabilise);
                    }
                    acts[choose(acts.len())].clone()
                };
                op_log(format!("{a:?}"));
                let push = |keep: &Keep, model: &[B<SV>; 2], side: usize| match &keep.inp {
                    In2::B(a, b) => (if side == 0 { a } else { b }).set(model[side].clone()),
                    In2::O(a, b) => (if side == 0 { a } else { b }).set(MapT::from_b(&model[side])),
                };
                match a {
                    A::Insert(side, k) => {
                        model[side].insert(k, fresh());
                        push(&keep, &model, side);
                        dirty = true;
                    }
                    A::Remove(side, k) => {
                        model[side].remove(&k);
                        push(&keep, &model, side);
                        dirty = true;
                    }
                    A::Clear(side) => {
                        model[side].clear();
                        push(&keep, &model, side);
                        dirty = true;
                        cover("map-emptied");
                    }
                    A::Observe => {
                        match &mut keep.out {
                            Out2::B(n, o) => *o = Some(n.observe()),
                            Out2::O(n, o) => *o = Some(n.observe()),
                            Out2::P(n, o) => *o = Some(n.observe()),
                        }
                        keep.down_obs = keep.down.as_ref().map(|d| d.observe());
                        dirty = true;
                        if seen.is_some() {
                            cover("operator-observed-again");
                        }
                    }
                    A::Unobserve => {
                        match &mut keep.out {
                            Out2::B(_, o) => *o = None,
                            Out2::O(_, o) => *o = None,
                            Out2::P(_, o) => *o = None,
                        }
                        keep.down_obs = None;
                        dirty = true;
                    }
                    A::Stabilise => {
                        log.borrow_mut().clear();
                        keep.state.stabilise();
                        dirty = false;
                        if !observed {
                            if !log.borrow().is_empty() {
                                violation("C17/work-while-unobserved", format!("{} user-function calls in a stabilise without an observer", log.borrow().len()));
                            }
                            continue;
                        }
                        let check_map = |what: &str, got: &B<SV>, want: &B<SV>| {
                            let gk: Vec<u8> = got.keys().copied().collect();
                            let wk: Vec<u8> = want.keys().copied().collect();
                            if gk != wk {
                                violation("C15/key-set", format!("{what}: output keys {gk:?}, definition gives {wk:?}"));
                            } else {
                                for (k, v) in got {
                                    let e = &want[k];
                                    let (v2, e2, kk, w2) = (v.clone(), e.clone(), *k, what.to_string());
                                    require("C15/entry-value", F::eq(v, e), move || format!("{w2}: output[{kk}] = {v2:?}, definition gives {e2:?}"));
                                }
                            }
                        };
                        match &keep.out {
                            Out2::B(_, o) => {
                                let got = o.as_ref().unwrap().value();
                                let mut want = B::new();
                                for k in 0..self.keys {
                                    if let Some(x) = merge_expected(k, model[0].get(&k), model[1].get(&k)) {
                                        want.insert(k, x);
                                    }
                                }
                                check_map("merge", &got, &want);
                                if let Some(d) = &keep.down_obs {
                                    check_map("dependant of the merge output", &d.value(), &want);
                                }
                            }
                            Out2::O(_, o) => {
                                let got = o.as_ref().unwrap().value().to_b();
                                let mut want = B::new();
                                for k in 0..self.keys {
                                    if let Some(x) = merge_expected(k, model[0].get(&k), model[1].get(&k)) {
                                        want.insert(k, x);
                                    }
                                }
                                check_map("merge", &got, &want);
                                if let Some(d) = &keep.down_obs {
                                    check_map("dependant of the merge output", &d.value(), &want);
                                }
                            }
                            Out2::P(_, o) => {
                                let (gl, gr) = o.as_ref().unwrap().value();
                                let (mut wl, mut wr) = (B::new(), B::new());
                                for (k, v) in &model[0] {
                                    let left = decide_pred(P_PART, &[lit(*k), v.clone()]);
                                    let (a, b) = if op == Op2::PartitionOrd { (v.clone(), v.clone()) } else { (app(F_PA, &[lit(*k), v.clone()]), app(F_PB, &[lit(*k), v.clone()])) };
                                    if left {
                                        wl.insert(*k, a);
                                    } else {
                                        wr.insert(*k, b);
                                    }
                                }
                                check_map("partition (first)", &gl.to_b(), &wl);
                                check_map("partition (second)", &gr.to_b(), &wr);
                            }
                        }
                        // C17
                        let calls = log.borrow().clone();
                        let allowed: BTreeSet<u8> = match &seen {
                            None => model[0].keys().chain(model[1].keys()).copied().collect(),
                            Some(s) => diff_keys(&s[0], &model[0]).union(&diff_keys(&s[1], &model[1])).copied().collect(),
                        };
                        let mut per: BTreeMap<(Role, u8), u32> = BTreeMap::new();
                        for (role, k) in &calls {
                            *per.entry((*role, *k)).or_insert(0) += 1;
                        }
                        for ((role, k), n) in &per {
                            if !allowed.contains(k) {
                                violation(&format!("C17/call-for-unchanged-key/{role:?}"), format!("{role:?} was called for key {k}, which does not differ between the previous and the current inputs (differing: {allowed:?})"));
                            }
                            if *n > 1 {
                                violation(&format!("C17/called-twice-for-one-key/{role:?}"), format!("{role:?} was called {n} times for key {k} in one stabilise"));
                            }
                        }
                        if !calls.is_empty() && seen.is_some() {
                            cover("incremental-update-ran-user-function");
                        }
                        seen = Some(model.clone());
                    }
                }
            }
        });
        let k = ManuallyDrop::into_inner(keep);
        match r {
            Ok(()) => {
                if let Err(msg) = catch(move || drop(k)) {
                    crate::exec::note_panic(msg);
                }
            }
            Err(msg) => {
                std::mem::forget(k);
                if msg.rsplit(" @ ").next().map_or(false, |l| l.starts_with("src/")) {
                    panic!("symx: harness panicked: {msg}");
                }
                violation(&format!("C15/panic/{}", crate::world::panic_site(&msg)), msg);
            }
        }
    }
}

// ---------------------------------------------------------------------------------------
// C16: per-key graph operators incr_mapi_ / incr_filter_mapi_ (+ _cutoff) on BTreeMap and OrdMap

const F_K0: u16 = 8; // g(k, v)
const F_K1: u16 = 9; // g(k, v, outer)
const F_K2: u16 = 10; // g(k, outer) inside a bind on the value
const F_K3: u16 = 11; // g(k, outer), input ignored
const F_K4: u16 = 12; // g(outer): one shared node
const P_K: u16 = 4; // per-key predicate (filter / bind choice)

#[derive(Clone, Copy, Debug, PartialEq, Eq)]
pub enum Fam {
    Pure,
    Map2Outer,
    BindOnValue,
    IgnoresInput,
    SharedNode,
    /// a bind on an outer var that either uses the per-key input or ignores it
    BindOuterChoosesInput,
}

pub struct PerKey {
    /// start with key 0 inserted, the output observed and one stabilise done (not counted)
    pub warm: bool,
    pub ord: bool,
    pub filter: bool,
    pub fam: Fam,
    pub len: usize,
    pub keys: u8,
}

enum OutK {
    B(Incr<B<SV>>, Option<Observer<B<SV>>>),
    O(Incr<OrdMap<u8, SV>>, Option<Observer<OrdMap<u8, SV>>>),
}
enum InK {
    B(Var<B<SV>>),
    O(Var<OrdMap<u8, SV>>),
}

impl Scenario for PerKey {
    fn name(&self) -> String {
        format!("perkey/{}/{}/{:?}{}", if self.ord { "OrdMap" } else { "BTreeMap" }, if self.filter { "filter_mapi_" } else { "mapi_" }, self.fam, if self.warm { "/warm" } else { "" })
    }
    fn run(&self) {
        let (fam, filter) = (self.fam, self.filter);
        let state = IncrState::new();
        let mut model: B<SV> = B::new();
        let o0 = fresh();
        let outer = (state.var(o0.clone()), o0);
        let o1 = fresh();
        let outer2 = (state.var(o1.clone()), o1);
        let shared = outer.0.map(|o| app(F_K4, &[o.clone()]));
        let log: CallLog = Rc::new(RefCell::new(vec![]));
        // cutoff variant: 0 = plain method, 1 = _cutoff(PartialEq), 2 = _cutoff(Never)
        let cut = choose(3);
        op_log(format!("cutoff variant {cut}"));
        // the per-key graph builders
        let (ow, o2w, sh) = (outer.0.watch(), outer2.0.watch(), shared.clone());
        let l = log.clone();
        let plain = move |k: &u8, iv: Incr<SV>| -> Incr<SV> {
            l.borrow_mut().push((Role::F, *k));
            let k = *k;
            let l2 = l.clone();
            match fam {
                Fam::Pure => iv.map(move |v| {
                    l2.borrow_mut().push((Role::Update, k));
                    app(F_K0, &[lit(k), v.clone()])
                }),
                Fam::Map2Outer => iv.map2(&ow, move |v, o| {
                    l2.borrow_mut().push((Role::Update, k));
                    app(F_K1, &[lit(k), v.clone(), o.clone()])
                }),
                Fam::BindOnValue => {
                    let (ow, o2w) = (ow.clone(), o2w.clone());
                    iv.bind(move |v| {
                        if decide_pred(P_K, &[lit(k), v.clone()]) {
                            ow.map(move |o| app(F_K2, &[lit(k), o.clone()]))
                        } else {
                            o2w.clone()
                        }
                    })
                }
                Fam::IgnoresInput => ow.map(move |o| app(F_K3, &[lit(k), o.clone()])),
                Fam::SharedNode => sh.clone(),
                Fam::BindOuterChoosesInput => {
                    let o2w = o2w.clone();
                    ow.bind(move |o| {
                        if decide_pred(P_K, &[lit(k), o.clone()]) {
                            let l3 = l2.clone();
                            iv.map(move |v| {
                                l3.borrow_mut().push((Role::Update, k));
                                app(F_K0, &[lit(k), v.clone()])
                            })
                        } else {
                            o2w.clone()
                        }
                    })
                }
            }
        };
        let mut plain2 = plain.clone();
        let as_filter = move |k: &u8, iv: Incr<SV>| -> Incr<Option<SV>> {
            let kk = *k;
            // the filter decision looks at the mapped value's key only through a predicate of (k, result)
            plain2(k, iv).map(move |r| if decide_pred(P_K + 1, &[lit(kk), r.clone()]) { Some(r.clone()) } else { None })
        };
        let cutoff = || if cut == 1 { incremental::Cutoff::PartialEq } else { incremental::Cutoff::Never };
        let (inp, out): (InK, OutK) = if self.ord {
            let v = state.var(OrdMap::<u8, SV>::new());
            let n = match (filter, cut) {
                (false, 0) => v.incr_mapi_(plain),
                (false, _) => v.incr_mapi_cutoff(plain, cutoff()),
                (true, 0) => v.incr_filter_mapi_(as_filter),
                (true, _) => v.incr_filter_mapi_cutoff(as_filter, cutoff()),
            };
            (InK::O(v), OutK::O(n, None))
        } else {
            let v = state.var(B::<SV>::new());
            let n = match (filter, cut) {
                (false, 0) => v.incr_mapi_(plain),
                (false, _) => v.incr_mapi_cutoff(plain, cutoff()),
                (true, 0) => v.incr_filter_mapi_(as_filter),
                (true, _) => v.incr_filter_mapi_cutoff(as_filter, cutoff()),
            };
            (InK::B(v), OutK::B(n, None))
        };
        struct Keep {
            state: IncrState,
            inp: InK,
            out: OutK,
            outer: (Var<SV>, SV),
            outer2: (Var<SV>, SV),
            shared: Incr<SV>,
        }
        let mut keep = ManuallyDrop::new(Keep { state, inp, out, outer, outer2, shared });
        let r = catch(|| {
            let mut dirty = false;
            let mut seen: Option<B<SV>> = None;
            let mut outer_written = false;
            // (warm SharedNode variant) the node every key maps to has an observer of its own for the whole run: it is
            // recomputed while the operator's output is unobserved
            let mut _shared_obs: Option<Observer<SV>> = None;
            if self.warm && fam == Fam::SharedNode {
                _shared_obs = Some(keep.shared.observe());
                cover("shared-node-observed-on-its-own");
            }
            if self.warm {
                model.insert(0, fresh());
                match &keep.inp {
                    InK::B(v) => v.set(model.clone()),
                    InK::O(v) => v.set(MapT::from_b(&model)),
                }
                match &mut keep.out {
                    OutK::B(n, o) => *o = Some(n.observe()),
                    OutK::O(n, o) => *o = Some(n.observe()),
                }
                keep.state.stabilise();
                seen = Some(model.clone());
                log.borrow_mut().clear();
                op_log("(warm start: Insert(0), Observe, Stabilise)".into());
            }
            for step in 0..=self.len {
                #[derive(Clone, Debug)]
                enum A {
                    Insert(u8),
                    Remove(u8),
                    WriteOuter,
                    WriteOuter2,
                    Observe,
                    Unobserve,
                    Stabilise,
                }
                let observed = match &keep.out {
                    OutK::B(_, o) => o.is_some(),
                    OutK::O(_, o) => o.is_some(),
                };
                let a = if step == self.len {
                    if !dirty {
                        break;
                    }
                    A::Stabilise
                } else {
                    let mut acts = vec![];
                    for k in 0..self.keys {
                        acts.push(A::Insert(k));
                        if model.contains_key(&k) {
                            acts.push(A::Remove(k));
                        }
                    }
                    if fam != Fam::Pure {
                        acts.push(A::WriteOuter);
                    }
                    if fam == Fam::BindOnValue || fam == Fam::BindOuterChoosesInput {
                        acts.push(A::WriteOuter2);
                    }
                    acts.push(if observed { A::Unobserve } else { A::Observe });
                    if dirty {
                        acts.push(A::Stabilise);
                    }
                    acts[choose(acts.len())].clone()
                };
                op_log(format!("{a:?}"));
                let push = |keep: &Keep, model: &B<SV>| match &keep.inp {
                    InK::B(v) => v.set(model.clone()),
                    InK::O(v) => v.set(MapT::from_b(model)),
                };
                match a {
                    A::Insert(k) => {
                        if model.contains_key(&k) {
                            cover("value-of-existing-key-changed");
                        } else if seen.is_some() {
                            cover("key-added-later");
                        }
                        model.insert(k, fresh());
                        push(&keep, &model);
                        dirty = true;
                    }
                    A::Remove(k) => {
                        model.remove(&k);
                        push(&keep, &model);
                        dirty = true;
                        cover("key-removed");
                    }
                    A::WriteOuter => {
                        let x = fresh();
                        keep.outer.0.set(x.clone());
                        keep.outer.1 = x;
                        dirty = true;
                        outer_written = true;
                    }
                    A::WriteOuter2 => {
                        let x = fresh();
                        keep.outer2.0.set(x.clone());
                        keep.outer2.1 = x;
                        dirty = true;
                        outer_written = true;
                    }
                    A::Observe => {
                        match &mut keep.out {
                            OutK::B(n, o) => *o = Some(n.observe()),
                            OutK::O(n, o) => *o = Some(n.observe()),
                        }
                        dirty = true;
                        if seen.is_some() {
                            cover("operator-observed-again");
                        }
                    }
                    A::Unobserve => {
                        match &mut keep.out {
                            OutK::B(_, o) => *o = None,
                            OutK::O(_, o) => *o = None,
                        }
                        dirty = true;
                    }
                    A::Stabilise => {
                        log.borrow_mut().clear();
                        keep.state.stabilise();
                        dirty = false;
                        if !observed {
                            continue;
                        }
                        let got: B<SV> = match &keep.out {
                            OutK::B(_, o) => o.as_ref().unwrap().value(),
                            OutK::O(_, o) => o.as_ref().unwrap().value().to_b(),
                        };
                        let (ov, o2v) = (keep.outer.1.clone(), keep.outer2.1.clone());
                        let mut want: B<SV> = B::new();
                        for (k, v) in &model {
                            let r = match fam {
                                Fam::Pure => app(F_K0, &[lit(*k), v.clone()]),
                                Fam::Map2Outer => app(F_K1, &[lit(*k), v.clone(), ov.clone()]),
                                Fam::BindOnValue => {
                                    if decide_pred(P_K, &[lit(*k), v.clone()]) {
                                        app(F_K2, &[lit(*k), ov.clone()])
                                    } else {
                                        o2v.clone()
                                    }
                                }
                                Fam::IgnoresInput => app(F_K3, &[lit(*k), ov.clone()]),
                                Fam::SharedNode => app(F_K4, &[ov.clone()]),
                                Fam::BindOuterChoosesInput => {
                                    if decide_pred(P_K, &[lit(*k), ov.clone()]) {
                                        app(F_K0, &[lit(*k), v.clone()])
                                    } else {
                                        o2v.clone()
                                    }
                                }
                            };
                            if !filter || decide_pred(P_K + 1, &[lit(*k), r.clone()]) {
                                want.insert(*k, r);
                            }
                        }
                        let gk: Vec<u8> = got.keys().copied().collect();
                        let wk: Vec<u8> = want.keys().copied().collect();
                        if gk != wk {
                            violation("C16/key-set", format!("output keys {gk:?}, the per-key computation on the current entries gives {wk:?} (input keys {:?})", model.keys().collect::<Vec<_>>()));
                        } else {
                            for (k, v) in &got {
                                let e = &want[k];
                                let (v2, e2, kk) = (v.clone(), e.clone(), *k);
                                require("C16/entry-value", F::eq(v, e), move || format!("output[{kk}] = {v2:?}, the per-key computation gives {e2:?}"));
                            }
                        }
                        // C17: the graph builder runs only for keys that appeared; per-key functions only for changed keys
                        let calls = log.borrow().clone();
                        let (added, changed): (BTreeSet<u8>, BTreeSet<u8>) = match &seen {
                            None => (model.keys().copied().collect(), model.keys().copied().collect()),
                            Some(s) => (model.keys().filter(|k| !s.contains_key(k)).copied().collect(), diff_keys(s, &model)),
                        };
                        let mut per: BTreeMap<(Role, u8), u32> = BTreeMap::new();
                        for c in &calls {
                            *per.entry(*c).or_insert(0) += 1;
                        }
                        for ((role, k), n) in &per {
                            match role {
                                Role::F => {
                                    if !added.contains(k) {
                                        violation("C17/graph-builder-called-for-existing-key", format!("the per-key builder ran for key {k}, which was already present (added keys: {added:?})"));
                                    }
                                    if *n > 1 {
                                        violation("C17/graph-builder-called-twice", format!("the per-key builder ran {n} times for key {k}"));
                                    }
                                }
                                _ => {
                                    if !changed.contains(k) && !outer_written {
                                        violation("C17/per-key-node-recomputed-for-unchanged-key", format!("the per-key function of key {k} ran although neither its entry nor any other variable changed (changed keys: {changed:?})"));
                                    }
                                    if *n > 1 {
                                        violation("C17/per-key-node-recomputed-twice", format!("the per-key function of key {k} ran {n} times in one stabilise"));
                                    }
                                }
                            }
                        }
                        seen = Some(model.clone());
                        outer_written = false;
                    }
                }
                crate::world::audit_state(&keep.state, false);
            }
        });
        let k = ManuallyDrop::into_inner(keep);
        match r {
            Ok(()) => {
                if let Err(msg) = catch(move || drop(k)) {
                    crate::exec::note_panic(msg);
                }
            }
            Err(msg) => {
                std::mem::forget(k);
                if msg.rsplit(" @ ").next().map_or(false, |l| l.starts_with("src/")) {
                    panic!("symx: harness panicked: {msg}");
                }
                violation(&format!("C16/panic/{}", crate::world::panic_site(&msg)), msg);
            }
        }
    }
}
