//! Scenario registry: which scenarios decide which property at which tier.
use crate::exec::Scenario;
use crate::world::*;

#[derive(Clone, Copy, PartialEq, Eq, Debug)]
pub enum Tier {
    Quick,
    Thorough,
}

pub struct WorldScn(pub WorldCfg);
impl Scenario for WorldScn {
    fn name(&self) -> String {
        self.0.name.clone()
    }
    fn run(&self) {
        run_world(&self.0)
    }
}

pub struct PropMeta {
    pub level: &'static str,
    pub functions: Vec<&'static str>,
    pub bounds: String,
    pub outside: Vec<&'static str>,
    pub assumptions: Vec<&'static str>,
    pub rule: &'static str,
    /// situations the check exists to cover; a zero count on an exhaustive run is a tool error
    pub must_cover: Vec<&'static str>,
}

fn ops_basic() -> Ops {
    Ops { write: true, observe: true, drop_obs: true, disallow: true, ..Ops::default() }
}

fn ops_subs() -> Ops {
    Ops { write: true, observe: true, drop_obs: true, disallow: true, subscribe: true, unsubscribe: true, state_unsubscribe: true, arm_handler_subscribe: true, ..Ops::default() }
}

fn wp(name: &str, specs: Vec<Spec>, observable: Vec<usize>, pinned: Vec<usize>, max_obs: usize, len: usize, ops: Ops, mon: Monitors) -> Box<dyn Scenario> {
    Box::new(WorldScn(WorldCfg { name: name.to_string(), specs, late_specs: vec![], observable, pinned, max_obs, max_subs: 2, observe_at_start: vec![], cut_nodes: vec![], cut_kinds: vec![], cut_eq: false, len, ops, mon }))
}

/// binds whose closures build nodes over outer nodes; the bind itself stays observed
pub fn bind_templates(prefix: &str, l: usize, ops: Ops, mon: Monitors) -> Vec<Box<dyn Scenario>> {
    use Spec::*;
    let n = |s: &str| format!("{prefix}/{s}");
    vec![
        wp(&n("bind_sibling"), vec![Var, Map(0), Map(1), Bind { lhs: 0, then: Rhs::FreshMapCap(2), els: Rhs::Node(2) }], vec![2], vec![3], 2, l, ops.clone(), mon.clone()),
        // the node the closure builds reads a sibling of the bind's input that is exactly as high as the bind's change detector
        wp(&n("bind_sibling_h1"), vec![Var, Map(0), Bind { lhs: 0, then: Rhs::FreshMapCap(1), els: Rhs::Node(1) }], vec![1], vec![2], 2, l, ops.clone(), mon.clone()),
        // the closure builds and drops a node before building the one it returns; the bind's input is a bind that can grow taller
        wp(
            &n("garbage_height_adjust"),
            vec![Var, Var, Map(1), Map(2), Map(3), Bind { lhs: 0, then: Rhs::Node(1), els: Rhs::Node(4) }, Bind { lhs: 5, then: Rhs::FreshGarbage(1), els: Rhs::Node(1) }],
            vec![5],
            vec![6],
            1,
            l,
            ops.clone(),
            mon.clone(),
        ),
        // a bind built inside a bind closure, whose own closure builds the node
        wp(&n("bind_in_bind"), vec![Var, Var, Var, Bind { lhs: 0, then: Rhs::FreshBind(1, 2), els: Rhs::FreshBind(1, 2) }], vec![2], vec![3], 2, l, ops.clone(), mon.clone()),
        wp(&n("bind_two_fresh"), vec![Var, Var, Map(1), Bind { lhs: 0, then: Rhs::FreshMapCap(2), els: Rhs::FreshMap(2) }], vec![2], vec![3], 2, l, ops.clone(), mon.clone()),
        wp(&n("bind_chain"), vec![Var, Var, Bind { lhs: 0, then: Rhs::FreshChain(1), els: Rhs::FreshMapCap(1) }], vec![1], vec![2], 2, l, ops.clone(), mon.clone()),
        wp(
            &n("bind_nested"),
            vec![Var, Var, Var, Bind { lhs: 1, then: Rhs::FreshMapCap(2), els: Rhs::Node(2) }, Bind { lhs: 0, then: Rhs::Node(3), els: Rhs::FreshMap(3) }],
            vec![3],
            vec![4],
            2,
            l.saturating_sub(1),
            ops.clone(),
            mon.clone(),
        ),
        wp(
            &n("bind_sequential"),
            vec![Var, Var, Bind { lhs: 0, then: Rhs::FreshMap(1), els: Rhs::Node(1) }, Bind { lhs: 2, then: Rhs::FreshMapCap(1), els: Rhs::FreshConst }],
            vec![2],
            vec![3],
            2,
            l.saturating_sub(1),
            ops.clone(),
            mon.clone(),
        ),
    ]
}

fn w(name: &str, specs: Vec<Spec>, observable: Vec<usize>, max_obs: usize, len: usize, ops: Ops, mon: Monitors) -> Box<dyn Scenario> {
    Box::new(WorldScn(WorldCfg { name: name.to_string(), specs, late_specs: vec![], observable, pinned: vec![], max_obs, max_subs: 2, observe_at_start: vec![], cut_nodes: vec![], cut_kinds: vec![], cut_eq: false, len, ops, mon }))
}

/// The graph templates shared by the value-carrying properties. `l` = history length.
pub fn graph_templates(prefix: &str, l: usize, ops: Ops, mon: Monitors) -> Vec<Box<dyn Scenario>> {
    graph_templates_x(prefix, l, 0, ops, mon)
}

/// `gap_extra`: additional history length for the two small templates whose interesting
/// histories (unobserve, change, re-observe) are long
pub fn graph_templates_x(prefix: &str, l: usize, gap_extra: usize, ops: Ops, mon: Monitors) -> Vec<Box<dyn Scenario>> {
    use Spec::*;
    let n = |s: &str| format!("{prefix}/{s}");
    vec![
        // pair var -> map_ref(.0) -> map ; second consumer keeps the var needed
        w(&n("mapref_chain"), vec![PVar, Fst(0), Map(1), PMap(0)], vec![2, 3], 2, l + gap_extra, ops.clone(), mon.clone()),
        // depend_on with a consumer above it and another way to keep its input needed
        w(&n("dependon_gap"), vec![Var, Var, DependOn(0, 1), Map(2)], vec![3, 0], 2, l + gap_extra, ops.clone(), mon.clone()),
        // map_ref over map_ref
        w(&n("mapref_nested"), vec![PVar, Fst(0), RefId(1), Map(2), PMap(0)], vec![3, 4], 2, l, ops.clone(), mon.clone()),
        // diamond
        w(&n("diamond"), vec![Var, Map(0), Map(0), Map2(1, 2)], vec![3, 1], 2, l, ops.clone(), mon.clone()),
        // bind switching between two existing nodes of different height
        w(&n("bind_existing"), vec![Var, Var, Map(1), Bind { lhs: 0, then: Rhs::Node(2), els: Rhs::Node(1) }], vec![3, 2], 2, l, ops.clone(), mon.clone()),
        // bind building a fresh node over an outer node in one branch
        w(&n("bind_fresh"), vec![Var, Var, Map(1), Bind { lhs: 0, then: Rhs::FreshMap(2), els: Rhs::Node(2) }], vec![3, 2], 2, l, ops.clone(), mon.clone()),
        // bind whose right-hand side reads a taller sibling of its own input
        w(&n("bind_sibling"), vec![Var, Map(0), Map(1), Bind { lhs: 0, then: Rhs::FreshMapCap(2), els: Rhs::Node(2) }], vec![3, 2], 2, l, ops.clone(), mon.clone()),
        // fold with a duplicated input
        w(&n("fold_dup"), vec![Var, Var, Fold(vec![0, 1, 0])], vec![2, 0], 2, l, ops.clone(), mon.clone()),
        // map_with_old, depend_on, zip
        w(&n("withold_dependon_zip"), vec![Var, Var, MapWithOld(0), DependOn(2, 1), Zip(2, 3)], vec![4, 3], 2, l.saturating_sub(1), ops.clone(), mon.clone()),
        // nested binds
        w(
            &n("nested_bind"),
            vec![Var, Var, Var, Bind { lhs: 1, then: Rhs::Node(2), els: Rhs::FreshMap(2) }, Bind { lhs: 0, then: Rhs::Node(3), els: Rhs::Node(2) }],
            vec![4, 3],
            2,
            l.saturating_sub(1),
            ops.clone(),
            mon.clone(),
        ),
        // identity map_ref over a var, map2 of a node with itself, map3, constant
        w(&n("refid_self_map3"), vec![Var, RefId(0), Map2(1, 1), Const, Map3(0, 2, 3)], vec![4, 2], 2, l.saturating_sub(1), ops.clone(), mon.clone()),
    ]
}

pub fn scenarios(prop: &str, tier: Tier) -> Vec<Box<dyn Scenario>> {
    let q = tier == Tier::Quick;
    match prop {
        "C01" => graph_templates_x("C01", if q { 6 } else { 8 }, if q { 2 } else { 1 }, ops_basic(), Monitors { c01: true, ..Monitors::default() }),
        "C02" => graph_templates("C02", if q { 6 } else { 8 }, ops_basic(), Monitors { c02: true, ..Monitors::default() }),
        "C05" => graph_templates("C05", if q { 6 } else { 8 }, Ops { drop_handle: true, ..ops_basic() }, Monitors { c05: true, ..Monitors::default() }),
        "C07" => graph_templates("C07", if q { 6 } else { 7 }, ops_basic(), Monitors { c07: true, c01: true, ..Monitors::default() }),
        "C03" => {
            let ops = Ops { write: true, observe: true, observe_smuggled: true, drop_obs: true, subscribe: true, subscribe_smuggled_only: true, ..Ops::default() };
            bind_templates("C03", if q { 6 } else { 8 }, ops, Monitors { c03: true, ..Monitors::default() })
        }
        "C04" => {
            use Spec::*;
            let l = if q { 5 } else { 7 };
            let mon = Monitors { c04: true, ..Monitors::default() };
            let ops = Ops { write: true, observe: true, drop_obs: true, disallow: true, subscribe: true, unsubscribe: true, drop_handle: true, arm_handler_subscribe: true, ..Ops::default() };
            let mut v = graph_templates("C04", l, ops.clone(), mon.clone());
            let bops = Ops { write: true, observe: true, observe_smuggled: true, drop_obs: true, disallow: true, drop_handle: true, ..Ops::default() };
            v.extend(bind_templates("C04b", l, bops.clone(), mon.clone()));
            // a closure that creates and drops a node, under a bind whose input grows taller
            v.push(wp(
                "C04b/garbage_in_closure_height_adjust",
                vec![Var, Var, Map(1), Map(2), Map(3), Bind { lhs: 0, then: Rhs::Node(1), els: Rhs::Node(4) }, Bind { lhs: 5, then: Rhs::FreshGarbage(1), els: Rhs::Node(1) }],
                vec![5],
                vec![6],
                1,
                l,
                Ops { write: true, observe: true, drop_obs: true, ..Ops::default() },
                mon.clone(),
            ));
            // nodes created after the graph has been stabilised
            v.push(Box::new(WorldScn(WorldCfg {
                name: "C04/late_nodes".into(),
                specs: vec![Var, Map(0)],
                late_specs: vec![Map2(0, 1), Bind { lhs: 1, then: Rhs::Node(0), els: Rhs::FreshMap(1) }],
                observable: vec![1, 2, 3],
                pinned: vec![],
                max_obs: 2,
                max_subs: 1,
                observe_at_start: vec![],
                cut_nodes: vec![],
                cut_kinds: vec![],
                cut_eq: false,
                len: l,
                ops: ops.clone(),
                mon,
            })));
            v
        }
        "C06" => {
            use Spec::*;
            let l = if q { 5 } else { 7 };
            let mon = Monitors { c06: true, ..Monitors::default() };
            let ops = Ops { write: true, write_same: true, observe: true, drop_obs: true, ..Ops::default() };
            let c = |name: &str, specs: Vec<Spec>, start: Vec<usize>, cut: Vec<usize>, observable: Vec<usize>, len: usize| -> Box<dyn Scenario> {
                Box::new(WorldScn(WorldCfg { name: format!("C06/{name}"), specs, late_specs: vec![], observable, pinned: vec![], max_obs: 1, max_subs: 0, observe_at_start: start, cut_nodes: cut, cut_kinds: vec![], cut_eq: false, len, ops: ops.clone(), mon: mon.clone() }))
            };
            vec![
                c("chain", vec![Var, Map(0), Map(1), Map(2)], vec![3], vec![0, 1, 2], vec![1], l),
                c("diamond", vec![Var, Map(0), Map(0), Map2(1, 2)], vec![3], vec![1, 2], vec![1], l),
                c("two_vars_fold", vec![Var, Var, Map(0), Fold(vec![2, 1, 2])], vec![3], vec![0, 2], vec![], l),
                c("mapref", vec![PVar, Fst(0), Map(1), PMap(0), Map2(2, 3)], vec![4], vec![1, 3], vec![], l),
                c("withold_refid_map3", vec![Var, Var, MapWithOld(0), RefId(1), Map3(3, 2, 0)], vec![4], vec![1, 3], vec![], l),
                c("mapref_over_withold", vec![Var, MapWithOld(0), RefId(1), Map(2)], vec![3], vec![2], vec![], l),
            ]
            .into_iter()
            .chain(graph_templates("C06g", if q { 6 } else { 8 }, ops_basic(), Monitors { c06g: true, ..Monitors::default() }))
            .collect()
        }
        "C08" => {
            use Spec::*;
            let mon = Monitors { c08: true, c01: true, c02: true, ..Monitors::default() };
            let c = |name: &str, specs: Vec<Spec>, observable: Vec<usize>, ops: Ops, len: usize| -> Box<dyn Scenario> {
                Box::new(WorldScn(WorldCfg { name: format!("C08/{name}"), specs, late_specs: vec![], observable, pinned: vec![], max_obs: 2, max_subs: 1, observe_at_start: vec![], cut_nodes: vec![], cut_kinds: vec![], cut_eq: false, len, ops, mon: mon.clone() }))
            };
            let l = if q { 5 } else { 7 };
            vec![
                // the five write operations outside stabilise, observed and unobserved variable
                c("five_writes", vec![Var, Map(0)], vec![1], Ops { write_kinds: true, wkinds_outside: WKINDS.to_vec(), observe: true, drop_obs: true, ..Ops::default() }, l),
                // node 2 (height 1) writes var 1 while readers of var 1 at heights 1 and 2 run in the same stabilise
                c(
                    "write_from_node_two_readers",
                    vec![Var, Var, Map(0), Map(1), Map2(2, 1), Map(4)],
                    vec![5, 3],
                    Ops { write_kinds: true, wkinds_outside: vec![WKind::Set, WKind::Update], arm_nodes: vec![2, 4], arm_vars: vec![1], observe: true, drop_obs: true, drop_var: true, ..Ops::default() },
                    l,
                ),
                // a node writes the variable it reads itself; an update handler writes too
                c(
                    "self_feedback_and_handler",
                    vec![Var, Map(0), Var, Map2(1, 2)],
                    vec![3, 1],
                    Ops { write_kinds: true, wkinds_outside: vec![WKind::Set], arm_nodes: vec![1], arm_vars: vec![0, 2], arm_handlers: true, observe: true, subscribe: true, drop_var: true, ..Ops::default() },
                    l,
                ),
            ]
        }
        "C12" => {
            use Spec::*;
            let mon = Monitors { c12: true, c01: true, ..Monitors::default() };
            let l = if q { 5 } else { 7 };
            let ops = Ops { write: true, observe: true, drop_obs: true, drop_handle: true, drop_var_handle: true, drop_state: true, ..Ops::default() };
            let c = |name: &str, specs: Vec<Spec>, observable: Vec<usize>, len: usize| -> Box<dyn Scenario> {
                Box::new(WorldScn(WorldCfg { name: format!("C12/{name}"), specs, late_specs: vec![], observable, pinned: vec![], max_obs: 1, max_subs: 0, observe_at_start: vec![], cut_nodes: vec![], cut_kinds: vec![], cut_eq: false, len, ops: ops.clone(), mon: mon.clone() }))
            };
            vec![
                c("chain_self_map2", vec![Var, Map(0), Map2(1, 1)], vec![2, 1], l),
                c("bind_returns_own_input", vec![Var, Var, Bind { lhs: 0, then: Rhs::Node(0), els: Rhs::Node(1) }], vec![2], l),
                c("bind_fresh", vec![Var, Var, Bind { lhs: 0, then: Rhs::FreshMapCap(1), els: Rhs::Node(1) }], vec![2, 1], l),
                c("mapref_fold", vec![PVar, Fst(0), Var, Fold(vec![1, 2, 1])], vec![3], l),
            ]
        }
        "C17" => {
            let mut v = scenarios("C15", tier);
            v.extend(scenarios("C16", tier));
            v
        }
        "C18" => {
            use crate::maps::*;
            use std::marker::PhantomData;
            let keys = if q { 4 } else { 6 };
            vec![
                Box::new(SymFold::<std::collections::BTreeMap<u8, crate::term::SV>> { keys, ph: PhantomData }),
                Box::new(SymFold::<std::rc::Rc<std::collections::BTreeMap<u8, crate::term::SV>>> { keys, ph: PhantomData }),
                Box::new(SymFold::<im_rc::OrdMap<u8, crate::term::SV>> { keys, ph: PhantomData }),
            ]
        }
        "C15" => {
            use crate::maps::*;
            use im_rc::OrdMap;
            use std::collections::BTreeMap;
            use std::marker::PhantomData;
            use std::rc::Rc;
            let keys = if q { 3 } else { 3 };
            let len = if q { 5 } else { 6 };
            let mut v: Vec<Box<dyn Scenario>> = vec![];
            let ops = [
                OpKind::Map,
                OpKind::FilterMap,
                OpKind::Mapi,
                OpKind::FilterMapi,
                OpKind::Fold { update: false, revert: false },
                OpKind::Fold { update: false, revert: true },
                OpKind::Fold { update: true, revert: false },
                OpKind::Fold { update: true, revert: true },
            ];
            for op in ops {
                v.push(Box::new(MapOps::<BTreeMap<u8, crate::term::SV>> { op, len, keys, ph: PhantomData }));
                v.push(Box::new(MapOps::<Rc<BTreeMap<u8, crate::term::SV>>> { op, len, keys, ph: PhantomData }));
                v.push(Box::new(MapOps::<OrdMap<u8, crate::term::SV>> { op, len, keys, ph: PhantomData }));
            }
            for op in [Op2::MergeBTree, Op2::MergeOrd, Op2::PartitionOrd, Op2::PartitionMapiOrd] {
                let two = matches!(op, Op2::MergeBTree | Op2::MergeOrd);
                v.push(Box::new(MapOps2 { op, len: len + 1, keys: if two { 2 } else { keys } }));
            }
            v
        }
        "C16" => {
            use crate::maps::*;
            let mut v: Vec<Box<dyn Scenario>> = vec![];
            for ord in [false, true] {
                for filter in [false, true] {
                    for fam in [Fam::Pure, Fam::Map2Outer, Fam::BindOnValue, Fam::IgnoresInput, Fam::SharedNode] {
                        v.push(Box::new(PerKey { ord, filter, fam, len: if q { 5 } else { 6 }, keys: 2 }));
                    }
                }
            }
            v
        }
        "C14" => vec![Box::new(crate::c14::DynSum { len: if q { 6 } else { 8 }, with_bind: false }), Box::new(crate::c14::DynSum { len: if q { 5 } else { 7 }, with_bind: true })],
        "C20" => vec![Box::new(crate::c20::Memo { len: if q { 6 } else { 8 }, recursive: false }), Box::new(crate::c20::Memo { len: if q { 6 } else { 8 }, recursive: true })],
        "C19" => vec![Box::new(crate::c19::HeightLimit { max_n: if q { 6 } else { 10 } }), Box::new(crate::c19::Misuse)],
        "C13" => {
            use Spec::*;
            let mon = Monitors { c13: true, ..Monitors::default() };
            let l = if q { 6 } else { 8 };
            let f = |k: NodeKeyKind, i: usize| (CrashAt::Fn(k, i), 0u32);
            let c = |name: &str, specs: Vec<Spec>, observable: Vec<usize>, cut: Vec<usize>, crash: Vec<(CrashAt, u32)>, len: usize| -> Box<dyn Scenario> {
                let ops = Ops { write: true, observe: true, drop_obs: true, subscribe: true, crash_points: crash, ..Ops::default() };
                Box::new(WorldScn(WorldCfg { name: format!("C13/{name}"), specs, late_specs: vec![], observable, pinned: vec![], max_obs: 2, max_subs: 1, observe_at_start: vec![], cut_nodes: cut, cut_kinds: vec![CutKind::Fn, CutKind::Boxed], cut_eq: true, len, ops, mon: mon.clone() }))
            };
            use NodeKeyKind as K;
            vec![
                c("diamond", vec![Var, Map(0), Map(0), Map2(1, 2)], vec![3, 1], vec![1], vec![f(K::Main, 1), f(K::Main, 2), f(K::Main, 3), f(K::Cutoff, 1), (CrashAt::Handler(0), 0), (CrashAt::Handler(1), 0)], l),
                c("bind_fresh", vec![Var, Var, Map(1), Bind { lhs: 0, then: Rhs::FreshMap(2), els: Rhs::Node(2) }], vec![3, 2], vec![], vec![f(K::BindFn, 3), f(K::Rhs, 3), f(K::Main, 2), (CrashAt::Handler(0), 0)], l),
                c("fold_dup", vec![Var, Var, Fold(vec![0, 1, 0])], vec![2, 0], vec![], vec![f(K::Main, 2), (CrashAt::Fn(K::Main, 2), 1), (CrashAt::Handler(0), 0)], l),
                c("mapref_chain", vec![PVar, Fst(0), Map(1), PMap(0)], vec![2, 3], vec![], vec![f(K::Main, 2), f(K::Main, 3), (CrashAt::Handler(0), 0)], l),
            ]
        }
        "C09" => graph_templates("C09", if q { 6 } else { 7 }, ops_subs(), Monitors { c09: true, ..Monitors::default() }),
        "C10" => {
            use Spec::*;
            let ops = Ops { write: true, observe: true, drop_obs: true, disallow: true, clone_obs: true, subscribe: true, unsubscribe: true, state_unsubscribe: true, ..Ops::default() };
            let mon = Monitors { c10: true, c07: true, ..Monitors::default() };
            vec![
                w("C10/shared_node", vec![Var, Map(0)], vec![1], 3, if q { 7 } else { 8 }, ops.clone(), mon.clone()),
                w("C10/two_nodes", vec![Var, Map(0), Map(1)], vec![1, 2], 2, if q { 6 } else { 8 }, ops, mon),
            ]
        }
        "C11" => {
            let mut v = graph_templates("C11", if q { 5 } else { 7 }, Ops { drop_handle: true, ..ops_subs() }, Monitors { c11: true, ..Monitors::default() });
            v.extend(bind_templates("C11b", if q { 5 } else { 7 }, Ops { write: true, observe: true, observe_smuggled: true, drop_obs: true, disallow: true, ..Ops::default() }, Monitors { c11: true, ..Monitors::default() }));
            v
        }
        _ => vec![],
    }
}

pub fn meta(prop: &str, tier: Tier) -> PropMeta {
    let q = tier == Tier::Quick;
    let engine = vec![
        "incremental::State::stabilise (+ stabilise_start/_end, add_new_observers, unlink_disallowed_observers)",
        "incremental::node::Node::{recompute, recompute_one, maybe_change_value(_manual), parent_iter_can_recompute_now, became_necessary, became_unnecessary, add_parent, remove_parent, state_add_parent, change_child_bind_rhs, invalidate_node, child_changed}",
        "incremental::State::propagate_invalidity, RecomputeHeap::*, AdjustHeightsHeap::*",
        "incremental::Var::{set, set_var_while_not_stabilising}, Incr::{map, map2, map3, map_ref, map_with_old, zip, depend_on, bind, observe}, IncrState::{fold, constant, var}",
        "incremental::InternalObserver::{try_get_value, disallow_future_use}, Cutoff::should_cutoff",
    ];
    let common_outside = vec![
        "histories longer than the stated length, graphs other than the listed templates",
        "impure node functions; i32 overflow of heights / stabilisation numbers",
        "iteration order of std HashMap across different observers of one node (callbacks in the harness never branch on it)",
    ];
    let common_assume = vec![
        "node functions are pure (uninterpreted functions f_k of their arguments); bind closures choose by an uninterpreted predicate p_k of the lhs",
        "values are integers in the solver (QF_UFLIA) and i64 in the concrete replay; only = is used on them",
        "rustc, std, z3 4.8.12 (sampled cross-check with cvc5 1.0) are trusted; harness monitors and reference evaluator are trusted",
    ];
    let l = |a: usize, b: usize| if q { a } else { b };
    match prop {
        "C01" => PropMeta {
            level: "other",
            functions: engine,
            bounds: format!("11 graph templates (<=5 nodes, <=2 concurrent observers, <=4 observer slots; the map_ref chain and the depend_on template get 2 (quick) / 1 (thorough) more actions), every history of {} actions from {{write var (fresh symbolic value; pair vars: both components or second only), observe node, drop observer, disallow observer, stabilise}} closed by a stabilise", l(6, 8)),
            outside: common_outside,
            assumptions: common_assume,
            rule: "one evaluation = one path of the decision tree (native run of the engine under a decision trail); distinct by construction (DFS never repeats a trail); non-trivial = the path contains at least one solver-decided branch on values with both outcomes feasible",
            must_cover: vec!["write-second-component-only"],
        },
        "C02" => PropMeta {
            level: "other",
            functions: engine,
            bounds: format!("as C01, histories of {} actions; every invocation of every node function / bind closure is logged with its argument terms", l(6, 8)),
            outside: common_outside,
            assumptions: common_assume,
            rule: "as C01; the monitor compares, per stabilise, the number of invocations per node to one evaluation and each argument term to the from-scratch value of the input (validity query per invocation)",
            must_cover: vec![],
        },
        "C05" => PropMeta {
            level: "other",
            functions: engine,
            bounds: format!("as C01, histories of {} actions; the dependency cone is computed by the harness from the expression and from what each bind closure last returned", l(6, 8)),
            outside: common_outside,
            assumptions: common_assume,
            rule: "as C01",
            must_cover: vec!["stabilise-with-no-live-observer"],
        },
        "C07" => PropMeta {
            level: "other",
            functions: engine,
            bounds: format!("as C01, histories of {} actions; every live observer is read after every single action", l(6, 7)),
            outside: common_outside,
            assumptions: common_assume,
            rule: "as C01",
            must_cover: vec![],
        },
        "C03" => PropMeta {
            level: "other",
            functions: engine,
            bounds: format!("5 bind templates (closures building map nodes over outer nodes, capturing the lhs; nested and sequential binds; <=5 world nodes), every history of {} actions from {{write var, observe node, observe the bind with a never-dropped observer (at any position: parent registration order is part of the history), observe a node smuggled out of a closure, subscribe on such an observer, drop observer, stabilise}}", l(6, 8)),
            outside: common_outside,
            assumptions: common_assume,
            rule: "as C01; the monitor requires, per invocation of a scope-created node's function, that the lhs value its closure captured equals the lhs value of the running stabilise (validity query), and checks observers/subscribers of scope-created nodes against the closure generation",
            must_cover: vec!["scope-created-node-ran", "observer-on-invalidated-scope-node"],
        },
        "C04" => PropMeta {
            level: "other",
            functions: engine,
            bounds: format!("10 graph templates + 5 bind templates + closure-garbage/height-adjust template + late-node template, histories of {} actions from {{write, observe (also scope-created nodes), drop/disallow observer, subscribe, unsubscribe, drop node handle, create node, stabilise}}, run under BOTH build profiles (debug assertions on and off); every action and the final drop of all handles and the state run under catch_unwind", l(5, 7)),
            outside: common_outside,
            assumptions: common_assume,
            rule: "as C01",
            must_cover: vec!["node-created-and-dropped-inside-bind-closure"],
        },
        "C06" => PropMeta {
            level: "other",
            functions: {
                let mut e = engine;
                e.push("incremental::Incr::{set_cutoff, set_cutoff_fn_boxed}, Cutoff::{Always, Never, PartialEq, Fn, FnBoxed}, ErasedCutoff::should_cutoff, MapRef child_changed");
                e
            },
            bounds: format!("5 templates (chain, diamond, fold with duplicate input, map_ref over a pair var, map_with_old/identity map_ref/map3) kept necessary by a permanent observer; the cutoff kind of 2-3 designated nodes (vars included) is a symbolic choice among {{default, Never, Always, fn, boxed closure}} (fn/boxed answer with an uninterpreted predicate q_k(old,new) and log their arguments); every history of {} actions from {{write fresh value, write the same value again, extra observer, drop it, stabilise}}; reference = per-node 'last result' model run next to the engine. PLUS the 9 graph templates of C01 with default cutoffs, histories of {} actions incl. observe/drop/disallow (nodes become unnecessary and necessary again): a function that has run before may run again only if an input produced an unsuppressed result since (inputs' results tracked from the invocation log; variable recomputations observed through logging ==-cutoffs)", l(5, 7), l(6, 8)),
            outside: {
                let mut o = common_outside;
                o.push("cutoffs on bind and depend_on nodes; expert nodes; periods in which a node is unnecessary (covered for values by C01)");
                o
            },
            assumptions: common_assume,
            rule: "as C01",
            must_cover: vec!["cutoff-suppressed", "cutoff-did-not-suppress", "always-cutoff-after-first-result", "write-same-value-again", "function-ran-again"],
        },
        "C08" => PropMeta {
            level: "other",
            functions: {
                let mut e = engine;
                e.push("incremental::Var::{set, update, modify, replace, replace_with, get}, var::Var::{set_var_stabilise_end, did_set_var_while_not_stabilising}, State::{stabilise_end (set_during_stabilisation, dead_vars), is_stable}, public::Var::drop");
                e
            },
            bounds: format!("3 templates; histories of {} actions from {{the five write operations outside stabilise, arm a one-shot write (any of the five operations) to be performed by a designated node function or by an update handler during the next stabilise (<=2 per history), drop the harness's Var handle while a write is armed, observe, drop observer, subscribe, stabilise}}, closed by `while !is_stable() {{ stabilise() }}` (<=4 rounds). update/modify/replace_with apply uninterpreted functions to the old value, so composition order is visible in the terms", l(5, 7)),
            outside: common_outside,
            assumptions: common_assume,
            rule: "as C01",
            must_cover: vec!["write-from-node-function", "write-from-update-handler", "var-handle-dropped-with-write-armed", "deferred-write-on-var-whose-last-handle-was-dropped"],
        },
        "C12" => PropMeta {
            level: "other",
            functions: {
                let mut e = engine;
                e.push("Drop for public::{Var, Observer}, State::{destroy, drop}, ExpertNode::drop, Var::break_rc_cycle, dead_vars handling in stabilise_end");
                e
            },
            bounds: format!("4 world templates (self-map2, bind returning its own input, bind building a capturing node, map_ref + fold with duplicate input) plus hand-written programs (var of var, expert join); every history of {} actions from {{drop a node handle (also var watch nodes), drop a Var handle, drop an observer, drop the state, observe, write, stabilise}}; every closure captures a drop-counting guard and every node is probed through a WeakIncr. After each stabilise: every node unreachable from the live handles is released and its guard fired exactly once; at the end everything left is dropped and everything must be released. Mostly structural: exhaustive bounded path coverage, the solver only keeps cutoff/bind branches consistent. Both build profiles", l(5, 7)),
            outside: common_outside,
            assumptions: common_assume,
            rule: "as C01",
            must_cover: vec!["state-dropped-before-handles", "leak-check-after-stabilise"],
        },
        "C15" | "C16" | "C17" => {
            let maps_fns = vec![
                "incremental_map::IncrMap::{incr_map, incr_filter_map, incr_mapi, incr_filter_mapi, incr_unordered_fold, incr_unordered_fold_update, incr_unordered_fold_with}",
                "incremental_map::btree_map::{IncrBTreeMap::{incr_mapi_, incr_mapi_cutoff, incr_filter_mapi_, incr_filter_mapi_cutoff, incr_merge}, incr_filter_mapi_generic_btree_map, merge_shared_impl}",
                "incremental_map::im_rc::{IncrOrdMap::{incr_mapi_, .., incr_merge, incr_partition, incr_partition_mapi}, PartitionMapi, incr_filter_mapi_ordmap, merge_shared_impl, DiffElement::from_diff_item}",
                "incremental_map::symmetric_fold::{SymmetricFoldMap for BTreeMap / Rc<BTreeMap> / OrdMap, SymmetricDiff, MergeOnce, MergeOnceWith}, WithOldIO::{with_old_input_output, with_old_input_output2}",
                "incremental::Incr::{map_with_old, map_cyclic, zip}, incremental::expert::* (per-key operators), im_rc::OrdMap::{diff, insert, remove, ==} (third-party, executed not trusted)",
            ];
            let b = match prop {
                "C15" => format!("each of {{incr_map, incr_filter_map, incr_mapi, incr_filter_mapi, incr_unordered_fold x (with/without update) x (with/without revert_to_init_when_empty)}} on each of BTreeMap, Rc<BTreeMap>, OrdMap; incr_merge on BTreeMap and OrdMap; incr_partition and incr_partition_mapi on OrdMap. Key universe 3 (merge: 2 per side), every history of {} (merge/partition: {}) actions from {{insert fresh symbolic value at key k, re-insert the equal value, remove k, clear, refill all keys, observe / unobserve the output, stabilise}}. User functions are uninterpreted (g(v), g(k,v), filter predicates), folds add w(k,v) with + and remove it with -, update adds w(k,new)-w(k,old); output compared entry by entry (validity queries) with the plain definition on the current input", l(5, 6), l(6, 7)),
                "C16" => format!("incr_mapi_ and incr_filter_mapi_ (plain, _cutoff(PartialEq), _cutoff(Never): symbolic choice) on BTreeMap and OrdMap x the five per-key function families of the property (pure map of the value; map2 with an outer var; bind on the value choosing between a map of an outer var and a second outer var by an uninterpreted predicate; ignores its input; returns one shared pre-existing node). Key universe 2, every history of {} actions from {{insert fresh value at k (new key or value change), remove k, write outer var(s), observe / unobserve, stabilise}}", l(5, 6)),
                _ => format!("the scenarios of C15 and C16 (same bounds) with every call of a user function logged by (role, key): calls only for keys whose presence or value (solver-decided) differs between the input at the operator's previous run and the current one, at most once per key and role; the per-key graph builder only for keys that appeared; per-key functions only for changed keys unless another variable changed; nothing while unobserved"),
            };
            PropMeta {
                level: "other",
                functions: maps_fns,
                bounds: b,
                outside: vec!["key universes larger than stated, key types other than u8, histories longer than stated", "Cutoff::Always / arbitrary cutoff functions on per-key nodes", "im_rc::HashMap"],
                assumptions: common_assume,
                rule: "as C01",
                must_cover: match prop {
                    "C15" => vec!["equal-value-written-again", "map-emptied", "operator-observed-again"],
                    "C16" => vec!["key-added-later", "key-removed", "value-of-existing-key-changed", "operator-observed-again"],
                    _ => vec!["incremental-update-ran-user-function"],
                },
            }
        }
        "C18" => PropMeta {
            level: "other",
            functions: vec!["incremental_map::symmetric_fold::SymmetricFoldMap::symmetric_fold for BTreeMap, Rc<BTreeMap>, im_rc::OrdMap (public trait)", "SymmetricDiff::next, MergeOnce::next, DiffElement::from_diff_item, im_rc::OrdMap::diff (third-party, executed)"],
            bounds: format!("symx half: every pair of maps over a key universe of {} where each key is absent / left only / right only / in both with the same value term / in both with independent symbolic values (value equality decided by the solver), for each of the three map types; the visit sequence of symmetric_fold is compared with the expected one (keys, order, variant, values by validity query). Kani half: see kani_bounds", if q { 4 } else { 6 }),
            outside: vec!["key universes beyond the bound; key types other than u8; the ordered merge inside incr_merge is exercised by C15 through the operator, its kernel by the Kani half"],
            assumptions: common_assume,
            rule: "as C01",
            must_cover: vec!["both-present-values-differ", "both-present-values-equal", "nothing-visited-for-equal-maps"],
        },
        "C14" => PropMeta {
            level: "other",
            functions: vec!["incremental::expert::{Node::new, add_dependency, add_dependency_with, remove_dependency, make_stale, invalidate, WeakNode}", "kind::expert::ExpertNode::{add_child_edge, swap_children, pop_child_edge, before_main_computation, run_edge_callback, observability_change, incr/decr_invalid_children}", "Node::{expert_add_dependency, expert_remove_dependency, expert_swap_children_except_in_kind, expert_remove_child, expert_make_stale, child_changed, add_parent_without_adjusting_heights, invalidate_node, propagate_invalidity}", "state::expert::*"],
            bounds: format!("one expert node = sum (+) of the values delivered by the change callbacks of its current dependencies, followed by a map; dependencies are edited from the function of a child node according to a plan (multiplicity 0..2 on a var and on a map node, 0..1 on a bind main and on the node the bind's closure builds, which is invalidated whenever the bind re-runs); histories of {} (without bind children) / {} (with) actions from {{change the plan for one child, write the control var (runs the reconcile function), write a leaf var, write the bind's lhs, observe / unobserve the expert's dependant, keep a child needed by another observer, ask for make_stale, ask for invalidate, stabilise}}. Join and bind constructions are the special cases with exactly one dependency", if q { 6 } else { 8 }, if q { 5 } else { 7 }),
            outside: vec!["more than one expert node; expert nodes created inside bind closures; dependencies added from edge callbacks (forbidden by the documentation); on_observability_change callbacks"],
            assumptions: common_assume,
            rule: "as C01; values use + over integers (QF_UFLIA)",
            must_cover: vec!["duplicate-dependency-on-one-child", "one-of-two-dependencies-on-the-same-child-removed", "dependency-on-invalidated-child-removed", "make_stale", "invalidate", "expert-unobserved", "expert-observed-again"],
        },
        "C20" => PropMeta {
            level: "other",
            functions: vec!["incremental::IncrState::{weak_memoize_fn, add_weak_map, within_scope, current_scope}", "WeakHashMap garbage_collect in State::stabilise_end", "Incr::weak / WeakIncr::{upgrade, strong_count}", "bind (Node::recompute_one BindLhsChange, invalidate_nodes_created_on_rhs), Scope"],
            bounds: format!("memoised function k -> var_k.map(f_k) over 3 keys (and a recursive variant k -> memo(k-1).map2(var_k)); every history of {} actions from {{call from top level (key 0..2), drop a held node, observe a held node, drop that observer, write a var, create a bind whose closure calls the memoised function with key chosen by an uninterpreted predicate of its lhs, write the bind's lhs, observe / unobserve / drop the bind, keep the node the closure obtained, stabilise}}. Oracle: WeakIncr::strong_count of the node last returned for a key decides whether the next call must return that very node without running the function, or must run it", if q { 6 } else { 8 }),
            outside: vec!["more than 3 keys, hash collisions of user key types, WeakSlotMap (feature slotmap)"],
            assumptions: common_assume,
            rule: "as C01",
            must_cover: vec!["memoised-call-while-node-alive", "memoised-call-after-node-released", "memoised-call-inside-bind-closure", "node-from-closure-kept", "bind-dropped"],
        },
        "C19" => PropMeta {
            level: "other",
            functions: vec!["incremental::IncrState::{new_with_height, set_max_height_allowed, stabilise}", "AdjustHeightsHeap::{new, set_max_height_allowed, set_height, ensure_height_requirement, adjust_heights}", "RecomputeHeap::{new, set_max_height_allowed, link, insert}", "Node::{became_necessary, state_add_parent, change_child_bind_rhs}, bind's foreign-state assertion, State::stabilise_debug status assertion"],
            bounds: format!("height limit N in 1..={}; graphs: map chain or chain ending in a bind, of height N-1, N, N+1; then set_max_height_allowed(M) for M in {{h, h+1, h+2}} (h = greatest height in use; grows or shrinks), the old graph re-stabilised after a write, and a second chain of height M (must be accepted) or M+1 (must be rejected with a panic naming the height limit). Misuse: cycle through one bind (two observation shapes), cycle through two binds, node of another state returned from a bind, stabilise from inside a node function / an update handler; afterwards all handles and the state are dropped under catch_unwind. Configuration integers are forked exhaustively; values are symbolic only for the value checks of accepted graphs. Both build profiles", if q { 6 } else { 10 }),
            outside: vec!["N = 0 and N > the bound; graphs other than chains/binds; a hang without user-function calls or a stack overflow kills the check (reported as tool error, never as a pass)"],
            assumptions: common_assume,
            rule: "as C01; since almost no value fork exists here, non-trivial counts the paths with at least one solver-decided fork and is small",
            must_cover: vec!["graph-at-or-below-limit", "graph-above-limit", "limit-shrunk", "limit-grown", "cycle-through-one-bind", "cycle-through-two-binds", "foreign-state-node-from-bind", "stabilise-inside-node-function", "stabilise-inside-handler"],
        },
        "C13" => PropMeta {
            level: "other",
            functions: {
                let mut e = engine;
                e.push("incremental::State::{stabilise_debug (status assertion), stabilise_end, destroy}, InternalObserver::try_get_value (status check), Drop for State/Observer/Var");
                e
            },
            bounds: format!("4 templates; histories of {} actions from {{write, observe, drop observer, subscribe, arm a panic at a chosen user function (node function, fold function 1st/2nd call, bind closure, node built inside a bind, fn/boxed cutoff function, update handler), stabilise}}; the panic fires at the next invocation of that function, is caught by the caller of stabilise; afterwards every observer is read, a further stabilise is attempted, and all handles and the state are dropped under catch_unwind, under both build profiles", l(6, 8)),
            outside: {
                let mut o = common_outside;
                o.push("a second panic during unwinding aborts the process: the check then dies with a signal and is reported as a tool error, not silently passed");
                o
            },
            assumptions: common_assume,
            rule: "as C01",
            must_cover: vec!["panic-in-node-function", "panic-in-bind-closure", "panic-in-scope-created-node", "panic-in-cutoff-function", "panic-in-update-handler"],
        },
        "C09" => PropMeta {
            level: "other",
            functions: engine,
            bounds: format!("10 graph templates, histories of {} actions from {{write, observe, drop, disallow, subscribe (<=2 per observer), unsubscribe by observer, unsubscribe by state, stabilise}}; expected notification per subscription and stabilise derived from the reference evaluator (changed = solver-decided inequality of consecutive from-scratch values)", l(6, 7)),
            outside: common_outside,
            assumptions: common_assume,
            rule: "as C01",
            must_cover: vec!["second-subscription-on-subscribed-node"],
        },
        "C10" => PropMeta {
            level: "other",
            functions: vec!["incremental::Observer::{try_get_value, try_subscribe, unsubscribe, disallow_future_use, clone, drop}", "incremental::IncrState::{unsubscribe, stabilise}", "incremental::InternalObserver::*, State::{add_new_observers, unlink_disallowed_observers}"],
            bounds: format!("2 graphs (one shared node with <=3 observers; two nodes), every sequence of {} actions from {{observe, clone observer, drop one handle, disallow, subscribe (also on dead observers), unsubscribe own token, unsubscribe with another observer's token, state.unsubscribe, write, stabilise}}; every handle of every observer is read after every action. The value dimension is almost empty here: this is exhaustive bounded path coverage, the solver only keeps cutoff branches consistent", l(7, 8)),
            outside: common_outside,
            assumptions: common_assume,
            rule: "as C01 (non-trivial paths are those with a feasible value fork; most paths of this property have none and are not counted)",
            must_cover: vec!["observer-cloned", "foreign-token-unsubscribe", "subscribe-on-dead-observer-rejected", "state-unsubscribe-after-observer-gone"],
        },
        "C11" => PropMeta {
            level: "other",
            functions: {
                let mut e = engine;
                e.push("incremental::IncrState::verif_audit (hook, cfg cormacrelf_incremental_rs_verif): edge symmetry and indices, heights, recompute-heap contents, counters, adjust-heights-heap Invariant");
                e
            },
            bounds: format!("10 graph templates + 5 bind templates, histories of {} actions from {{write, observe (also scope-created nodes), drop, disallow, subscribe, unsubscribe, stabilise}}; the audit runs after every single action under both build profiles", l(5, 7)),
            outside: common_outside,
            assumptions: common_assume,
            rule: "as C01",
            must_cover: vec![],
        },
        _ => PropMeta { level: "other", functions: vec![], bounds: String::new(), outside: vec![], assumptions: vec![], rule: "", must_cover: vec![] },
    }
}
