//! SMT solver over a pipe (`z3 -in`), optionally mirrored to `cvc5 --incremental`.
use std::io::{BufRead, BufReader, Write};
use std::process::{Child, ChildStdin, ChildStdout, Command, Stdio};
use std::time::{Duration, Instant};

pub struct Proc {
    child: Child,
    inp: ChildStdin,
    out: BufReader<ChildStdout>,
    pub name: &'static str,
}

impl Proc {
    fn spawn(name: &'static str, cmd: &str, args: &[&str]) -> Proc {
        let mut child = Command::new(cmd)
            .args(args)
            .stdin(Stdio::piped())
            .stdout(Stdio::piped())
            .stderr(Stdio::null())
            .spawn()
            .unwrap_or_else(|e| panic!("cannot spawn {cmd}: {e}"));
        let inp = child.stdin.take().unwrap();
        let out = BufReader::new(child.stdout.take().unwrap());
        let mut p = Proc { child, inp, out, name };
        p.send(&crate::term::preamble());
        // synchronise: make sure the preamble was accepted
        p.send("(check-sat)\n");
        let r = p.read_line();
        if r != "sat" {
            panic!("solver {name} rejected preamble: {r}");
        }
        p
    }
    pub fn send(&mut self, s: &str) {
        self.inp.write_all(s.as_bytes()).expect("solver pipe closed");
    }
    pub fn read_line(&mut self) -> String {
        self.inp.flush().expect("solver pipe closed");
        let mut line = String::new();
        loop {
            line.clear();
            let n = self.out.read_line(&mut line).expect("solver read");
            if n == 0 {
                panic!("solver {} closed its output", self.name);
            }
            let t = line.trim();
            if t.is_empty() {
                continue;
            }
            if t.starts_with("(error") {
                panic!("solver {} error: {}", self.name, t);
            }
            return t.to_string();
        }
    }
}

impl Drop for Proc {
    fn drop(&mut self) {
        let _ = self.inp.write_all(b"(exit)\n");
        let _ = self.inp.flush();
        let _ = self.child.kill();
        let _ = self.child.wait();
    }
}

#[derive(Default, Clone, Debug)]
pub struct SolverStats {
    pub queries: u64,
    pub sat: u64,
    pub unsat: u64,
    pub time: Duration,
    pub cross_queries: u64,
    pub cross_time: Duration,
}

pub struct Solver {
    z3: Proc,
    cvc5: Option<Proc>,
    /// mirror the *current path* to cvc5
    pub mirror: bool,
    pub stats: SolverStats,
}

#[derive(Clone, Copy, PartialEq, Eq, Debug)]
pub enum Sat {
    Sat,
    Unsat,
}

impl Solver {
    pub fn new(with_cvc5: bool) -> Solver {
        let z3 = Proc::spawn("z3", "z3", &["-in", "-smt2"]);
        let cvc5 = if with_cvc5 {
            Some(Proc::spawn("cvc5", "cvc5", &["--incremental", "--lang", "smt2", "--produce-models"]))
        } else {
            None
        };
        Solver { z3, cvc5, mirror: false, stats: SolverStats::default() }
    }
    pub fn has_cvc5(&self) -> bool {
        self.cvc5.is_some()
    }
    fn both(&mut self, s: &str) {
        self.z3.send(s);
        if self.mirror {
            if let Some(c) = &mut self.cvc5 {
                c.send(s);
            }
        }
    }
    pub fn push(&mut self) {
        self.both("(push 1)\n");
    }
    pub fn pop(&mut self) {
        self.both("(pop 1)\n");
    }
    pub fn assert(&mut self, smt: &str) {
        let s = format!("(assert {})\n", smt);
        self.both(&s);
    }
    fn parse(name: &str, r: &str) -> Sat {
        match r {
            "sat" => Sat::Sat,
            "unsat" => Sat::Unsat,
            other => panic!("solver {name} answered {other:?} (inconclusive)"),
        }
    }
    /// check `current assertions ∧ extra`; the assertion stack is unchanged afterwards.
    pub fn check_with(&mut self, extra: &str) -> Sat {
        let t0 = Instant::now();
        let s = format!("(push 1)\n(assert {})\n(check-sat)\n(pop 1)\n", extra);
        self.z3.send(&s);
        let r = Self::parse("z3", &self.z3.read_line());
        self.stats.time += t0.elapsed();
        self.stats.queries += 1;
        match r {
            Sat::Sat => self.stats.sat += 1,
            Sat::Unsat => self.stats.unsat += 1,
        }
        if self.mirror {
            if let Some(c) = &mut self.cvc5 {
                let t1 = Instant::now();
                c.send(&s);
                let r2 = Self::parse("cvc5", &c.read_line());
                self.stats.cross_time += t1.elapsed();
                self.stats.cross_queries += 1;
                if r2 != r {
                    panic!("solver disagreement on {extra}: z3={r:?} cvc5={r2:?}");
                }
            }
        }
        r
    }
    /// check `current assertions ∧ extra` and, if sat, return the values of `terms`
    /// (integers) and `preds` (booleans) in the model. Stack unchanged afterwards.
    pub fn model_with(&mut self, extra: &str, terms: &[String], preds: &[String]) -> Option<(Vec<i64>, Vec<bool>)> {
        let t0 = Instant::now();
        self.z3.send(&format!("(push 1)\n(assert {})\n(check-sat)\n", extra));
        let r = Self::parse("z3", &self.z3.read_line());
        self.stats.queries += 1;
        let out = match r {
            Sat::Unsat => {
                self.stats.unsat += 1;
                None
            }
            Sat::Sat => {
                self.stats.sat += 1;
                let mut tv = vec![];
                for t in terms {
                    self.z3.send(&format!("(get-value ({}))\n", t));
                    let line = self.z3.read_line();
                    tv.push(parse_int_value(&line).unwrap_or_else(|| panic!("cannot parse model value {line:?}")));
                }
                let mut pv = vec![];
                for p in preds {
                    self.z3.send(&format!("(get-value ({}))\n", p));
                    let line = self.z3.read_line();
                    let l = line.trim_end_matches(')').trim_end();
                    if l.ends_with("true") {
                        pv.push(true)
                    } else if l.ends_with("false") {
                        pv.push(false)
                    } else {
                        panic!("cannot parse model bool {line:?}")
                    }
                }
                Some((tv, pv))
            }
        };
        self.z3.send("(pop 1)\n");
        self.stats.time += t0.elapsed();
        out
    }
}

/// parse `((<term> 5))` or `((<term> (- 5)))`
fn parse_int_value(line: &str) -> Option<i64> {
    let s = line.trim();
    let s = s.strip_suffix("))")?;
    if let Some(inner) = s.strip_suffix(')') {
        // negative literal "(- N"
        let idx = inner.rfind("(-")?;
        let n: i128 = inner[idx + 2..].trim().parse().ok()?;
        Some((-n) as i64)
    } else {
        let idx = s.rfind(|c: char| c.is_whitespace())?;
        s[idx + 1..].trim().parse::<i64>().ok()
    }
}
