//! Symbolic value type handed to the real engine as `incremental::Value`.
//!
//! An `SV` is a term over fresh integer constants `x_n`, integer literals, `+`/`-` and
//! uninterpreted functions `f<k>_<arity>`. The engine never looks inside a value: it clones
//! it, compares it (`PartialEq::eq`, which is routed to the executor and decided by the
//! SMT solver) and hands it to harness closures.
use std::fmt;
use std::rc::Rc;

pub enum T {
    Leaf(u32),
    Lit(i64),
    App(u16, Vec<SV>),
    Add(SV, SV),
    Sub(SV, SV),
}

#[derive(Clone)]
pub struct SV(pub Rc<T>);

impl SV {
    pub fn lit(n: i64) -> SV {
        SV(Rc::new(T::Lit(n)))
    }
    pub fn add(&self, o: &SV) -> SV {
        SV(Rc::new(T::Add(self.clone(), o.clone())))
    }
    pub fn sub(&self, o: &SV) -> SV {
        SV(Rc::new(T::Sub(self.clone(), o.clone())))
    }
    /// Structural identity (syntactic equality of terms). `same ⇒ equal` in every model.
    pub fn same(&self, o: &SV) -> bool {
        if Rc::ptr_eq(&self.0, &o.0) {
            return true;
        }
        match (&*self.0, &*o.0) {
            (T::Leaf(a), T::Leaf(b)) => a == b,
            (T::Lit(a), T::Lit(b)) => a == b,
            (T::App(f, a), T::App(g, b)) => {
                f == g && a.len() == b.len() && a.iter().zip(b).all(|(x, y)| x.same(y))
            }
            (T::Add(a, b), T::Add(c, d)) | (T::Sub(a, b), T::Sub(c, d)) => a.same(c) && b.same(d),
            _ => false,
        }
    }
    pub fn smt(&self) -> String {
        let mut s = String::new();
        self.smt_into(&mut s);
        s
    }
    pub fn smt_into(&self, s: &mut String) {
        use std::fmt::Write;
        match &*self.0 {
            T::Leaf(n) => {
                let _ = write!(s, "x{}", n);
            }
            T::Lit(n) => {
                if *n < 0 {
                    let _ = write!(s, "(- {})", -(*n as i128));
                } else {
                    let _ = write!(s, "{}", n);
                }
            }
            T::App(f, args) => {
                let _ = write!(s, "(f{}_{}", f, args.len());
                for a in args {
                    s.push(' ');
                    a.smt_into(s);
                }
                s.push(')');
            }
            T::Add(a, b) => {
                s.push_str("(+ ");
                a.smt_into(s);
                s.push(' ');
                b.smt_into(s);
                s.push(')');
            }
            T::Sub(a, b) => {
                s.push_str("(- ");
                a.smt_into(s);
                s.push(' ');
                b.smt_into(s);
                s.push(')');
            }
        }
    }
    /// All subterms that need a value from the model to rebuild function tables.
    pub fn collect_apps(&self, out: &mut Vec<SV>) {
        match &*self.0 {
            T::Leaf(_) | T::Lit(_) => {}
            T::App(_, args) => {
                for a in args {
                    a.collect_apps(out);
                }
                out.push(self.clone());
            }
            T::Add(a, b) | T::Sub(a, b) => {
                a.collect_apps(out);
                b.collect_apps(out);
            }
        }
    }
    pub fn collect_leaves(&self, out: &mut Vec<u32>) {
        match &*self.0 {
            T::Leaf(n) => out.push(*n),
            T::Lit(_) => {}
            T::App(_, args) => args.iter().for_each(|a| a.collect_leaves(out)),
            T::Add(a, b) | T::Sub(a, b) => {
                a.collect_leaves(out);
                b.collect_leaves(out);
            }
        }
    }
}

impl fmt::Debug for SV {
    fn fmt(&self, f: &mut fmt::Formatter<'_>) -> fmt::Result {
        f.write_str(&self.smt())
    }
}

impl Default for SV {
    fn default() -> Self {
        SV::lit(0)
    }
}

impl PartialEq for SV {
    /// Every comparison the engine (or a container of `SV`s) performs lands here and becomes
    /// a solver-decided branch of the current path.
    fn eq(&self, other: &SV) -> bool {
        crate::exec::decide_eq(self, other)
    }
}

/// Formulas for `require`, `assume` and predicate decisions.
#[derive(Clone)]
pub enum F {
    True,
    False,
    Eq(SV, SV),
    Pred(u16, Vec<SV>),
    Not(Box<F>),
    And(Vec<F>),
    Or(Vec<F>),
}

impl F {
    pub fn eq(a: &SV, b: &SV) -> F {
        if a.same(b) {
            F::True
        } else {
            F::Eq(a.clone(), b.clone())
        }
    }
    pub fn ne(a: &SV, b: &SV) -> F {
        F::Not(Box::new(F::eq(a, b)))
    }
    pub fn not(self) -> F {
        match self {
            F::True => F::False,
            F::False => F::True,
            F::Not(f) => *f,
            f => F::Not(Box::new(f)),
        }
    }
    pub fn and(fs: Vec<F>) -> F {
        let mut v = vec![];
        for f in fs {
            match f {
                F::True => {}
                F::False => return F::False,
                F::And(inner) => v.extend(inner),
                f => v.push(f),
            }
        }
        match v.len() {
            0 => F::True,
            1 => v.pop().unwrap(),
            _ => F::And(v),
        }
    }
    pub fn or(fs: Vec<F>) -> F {
        let mut v = vec![];
        for f in fs {
            match f {
                F::False => {}
                F::True => return F::True,
                F::Or(inner) => v.extend(inner),
                f => v.push(f),
            }
        }
        match v.len() {
            0 => F::False,
            1 => v.pop().unwrap(),
            _ => F::Or(v),
        }
    }
    pub fn smt(&self) -> String {
        let mut s = String::new();
        self.smt_into(&mut s);
        s
    }
    pub fn smt_into(&self, s: &mut String) {
        use std::fmt::Write;
        match self {
            F::True => s.push_str("true"),
            F::False => s.push_str("false"),
            F::Eq(a, b) => {
                s.push_str("(= ");
                a.smt_into(s);
                s.push(' ');
                b.smt_into(s);
                s.push(')');
            }
            F::Pred(p, args) => {
                let _ = write!(s, "(p{}_{}", p, args.len());
                for a in args {
                    s.push(' ');
                    a.smt_into(s);
                }
                s.push(')');
            }
            F::Not(f) => {
                s.push_str("(not ");
                f.smt_into(s);
                s.push(')');
            }
            F::And(fs) | F::Or(fs) => {
                s.push_str(if matches!(self, F::And(_)) { "(and" } else { "(or" });
                for f in fs {
                    s.push(' ');
                    f.smt_into(s);
                }
                s.push(')');
            }
        }
    }
    pub fn collect_terms(&self, apps: &mut Vec<SV>, leaves: &mut Vec<u32>, preds: &mut Vec<(u16, Vec<SV>)>) {
        match self {
            F::True | F::False => {}
            F::Eq(a, b) => {
                a.collect_apps(apps);
                b.collect_apps(apps);
                a.collect_leaves(leaves);
                b.collect_leaves(leaves);
            }
            F::Pred(p, args) => {
                for a in args {
                    a.collect_apps(apps);
                    a.collect_leaves(leaves);
                }
                preds.push((*p, args.clone()));
            }
            F::Not(f) => f.collect_terms(apps, leaves, preds),
            F::And(fs) | F::Or(fs) => fs.iter().for_each(|f| f.collect_terms(apps, leaves, preds)),
        }
    }
}

impl fmt::Debug for F {
    fn fmt(&self, f: &mut fmt::Formatter<'_>) -> fmt::Result {
        f.write_str(&self.smt())
    }
}

pub const MAX_LEAVES: u32 = 192;
pub const MAX_FN: u16 = 112;
pub const MAX_PRED: u16 = 40;
pub const MAX_ARITY: usize = 6;

/// Declarations sent once to each solver process.
pub fn preamble() -> String {
    let mut s = String::new();
    s.push_str("(set-option :print-success false)\n(set-option :produce-models true)\n(set-logic QF_UFLIA)\n");
    for i in 0..MAX_LEAVES {
        s.push_str(&format!("(declare-const x{} Int)\n", i));
    }
    for k in 0..MAX_FN {
        for a in 1..=MAX_ARITY {
            s.push_str(&format!("(declare-fun f{}_{} ({}) Int)\n", k, a, vec!["Int"; a].join(" ")));
        }
    }
    for k in 0..MAX_PRED {
        for a in 1..=2 {
            s.push_str(&format!("(declare-fun p{}_{} ({}) Bool)\n", k, a, vec!["Int"; a].join(" ")));
        }
    }
    s
}
