//! The graph world: a data-driven harness that builds a graph with the *public* API of the
//! real engine at the symbolic value type, drives it through a history of operations chosen
//! through the executor's decision API, logs every invocation of a user function and checks
//! monitors against a reference evaluator that never touches the engine.
use crate::exec::{self, app, catch, choose, cover, decide_pred, fresh, op_log, require, violation};
use crate::term::{F, SV};
use incremental::{Cutoff, Incr, IncrState, Observer, ObserverError, SubscriptionToken, Update, Var, WeakState};
use std::cell::{Cell, RefCell};
use std::collections::{BTreeMap, BTreeSet};
use std::mem::ManuallyDrop;
use std::rc::Rc;

pub type Pair = (SV, SV);

#[derive(Clone, Debug)]
pub enum Rhs {
    /// return a node that exists outside the bind
    Node(usize),
    /// build `node.map(g)` inside the closure
    FreshMap(usize),
    /// build `node.map(move |y| g(captured_lhs, y))` inside the closure
    FreshMapCap(usize),
    /// build `constant(g(lhs))` inside the closure
    FreshConst,
    /// build `node.map(g).map(g')` inside the closure (two scope-created nodes)
    FreshChain(usize),
    /// like FreshMap, but the closure also builds a second node and drops it before returning
    FreshGarbage(usize),
    /// the closure builds a bind over node .0 whose closure builds `node .1 .map(g(outer lhs, inner lhs, ·))`
    FreshBind(usize, usize),
    /// the closure builds `node.map(move |y| g(captured_lhs, y))`, lets it escape, and returns the outer node itself
    /// (the same right-hand side on every run, while the nodes built on the side belong to one run only)
    SideNode(usize),
}

#[derive(Clone, Debug)]
pub enum Spec {
    Var,
    PVar,
    Const,
    Map(usize),
    Map2(usize, usize),
    Map3(usize, usize, usize),
    /// `map4` / `map5` / `map6` (4 to 6 inputs, duplicates allowed)
    MapN(Vec<usize>),
    MapWithOld(usize),
    Fold(Vec<usize>),
    /// fold of scalar inputs into a *pair* accumulator `(f(acc.0, x), 0)`: accumulator type differs from the element type
    FoldP(Vec<usize>),
    Zip(usize, usize),
    DependOn(usize, usize),
    /// `pvar.map_ref(|p| &p.0)`
    Fst(usize),
    /// `pvar.map(|p| f(p.0, p.1))`
    PMap(usize),
    /// `node.map_ref(|x| x)`
    RefId(usize),
    /// `pair_node.map_ref(|p| p)` (identity map_ref on a pair-typed node)
    RefIdP(usize),
    Bind { lhs: usize, then: Rhs, els: Rhs },
}

impl Spec {
    pub fn kind_name(&self) -> &'static str {
        match self {
            Spec::Var => "Var",
            Spec::PVar => "PVar",
            Spec::Const => "Const",
            Spec::Map(_) => "Map",
            Spec::Map2(..) => "Map2",
            Spec::Map3(..) => "Map3",
            Spec::MapN(v) => match v.len() { 4 => "Map4", 5 => "Map5", _ => "Map6" },
            Spec::MapWithOld(_) => "MapWithOld",
            Spec::Fold(_) => "Fold",
            Spec::FoldP(_) => "FoldP",
            Spec::Zip(..) => "Zip",
            Spec::DependOn(..) => "DependOn",
            Spec::Fst(_) => "Fst",
            Spec::PMap(_) => "PMap",
            Spec::RefId(_) => "RefId",
            Spec::RefIdP(_) => "RefIdP",
            Spec::Bind { .. } => "Bind",
        }
    }
    pub fn inputs(&self) -> Vec<usize> {
        match self {
            Spec::Var | Spec::PVar | Spec::Const => vec![],
            Spec::Map(a) | Spec::MapWithOld(a) | Spec::Fst(a) | Spec::PMap(a) | Spec::RefId(a) | Spec::RefIdP(a) => vec![*a],
            Spec::Map2(a, b) | Spec::Zip(a, b) | Spec::DependOn(a, b) => vec![*a, *b],
            Spec::Map3(a, b, c) => vec![*a, *b, *c],
            Spec::Fold(v) | Spec::FoldP(v) | Spec::MapN(v) => v.clone(),
            Spec::Bind { lhs, .. } => vec![*lhs],
        }
    }
}

#[derive(Clone, Copy, PartialEq, Eq, Hash, Debug, PartialOrd, Ord)]
pub enum NodeKey {
    /// the node function of world node i (map/fold/... function)
    Main(usize),
    /// the closure of bind i
    BindFn(usize),
    /// function of a node created by the closure of bind i: (bind, branch, generation, position in chain)
    Rhs(usize, bool, u32, u8),
    /// cutoff function of node i
    Cutoff(usize),
}

#[derive(Clone, Debug)]
pub struct Inv {
    pub round: u32,
    pub key: NodeKey,
    pub args: Vec<SV>,
}

/// State shared between the harness and the closures it hands to the engine.
pub struct Shared {
    pub log: RefCell<Vec<Inv>>,
    pub round: Cell<u32>,
    pub in_stabilise: Cell<bool>,
    pub gens: RefCell<BTreeMap<usize, u32>>,
    pub last_branch: RefCell<BTreeMap<usize, bool>>,
    /// lhs value each run of a bind closure saw: (bind, generation) -> lhs
    pub gen_lhs: RefCell<BTreeMap<(usize, u32), SV>>,
    /// for nodes built by a bind inside a bind closure: the inner lhs value captured
    pub gen_lhs2: RefCell<BTreeMap<(usize, u32), SV>>,
    /// handles to scope-created nodes smuggled out of bind closures: (bind, branch, gen, pos, node)
    pub smuggled: RefCell<Vec<(usize, bool, u32, u8, Incr<SV>)>>,
    pub updates: RefCell<Vec<UpdLog>>,
    /// hook invoked at every user-function invocation (crash points, deferred writes, reads)
    pub on_invoke: RefCell<Option<Box<dyn FnMut(&Inv)>>>,
    pub armed: RefCell<Vec<Armed>>,
    /// one-shot: the first handler of observer slot .0 subscribes on observer slot .1
    pub armed_sub: RefCell<Option<(usize, usize)>>,
    /// one-shot: the first handler of this observer slot drops every handle of that observer
    pub armed_drop_self: Cell<Option<usize>>,
    pub dropped_self_in: Cell<Option<(usize, u32)>>,
    /// one-shot injected panic: (which user function, how many matching invocations to skip)
    pub crash: RefCell<Option<(CrashAt, u32)>>,
    pub crashed: Cell<Option<CrashAt>>,
    /// fn/boxed cutoffs answer with equality instead of an uninterpreted predicate
    pub cut_eq: Cell<bool>,
    pub guards: RefCell<Vec<(GuardOwner, Rc<Cell<u32>>)>>,
    pub smuggle: Cell<bool>,
    /// every bind closure first runs `within_scope(top, ..)` (the scope must be restored afterwards)
    pub scope_call: Cell<bool>,
    pub top_scope: RefCell<Option<incremental::Scope>>,
    pub scenario_name: String,
    pub performed: RefCell<Vec<Performed>>,
}

#[derive(Clone, Debug)]
pub struct UpdLog {
    pub round: u32,
    pub during_stabilise_call: bool,
    pub slot: usize,
    pub sub: usize,
    pub upd: Update<SV>,
    pub read: Option<Result<SV, ObserverError>>,
    /// what every observer returned when read from inside this callback: (slot, result)
    pub reads_all: Vec<(usize, Result<SV, ObserverError>)>,
}

impl Shared {
    pub fn new_guard(&self, owner: GuardOwner) -> Guard {
        let c = Rc::new(Cell::new(0));
        self.guards.borrow_mut().push((owner, c.clone()));
        Guard(c)
    }
    pub fn maybe_crash(&self, at: CrashAt) {
        let fire = {
            let mut c = self.crash.borrow_mut();
            match c.as_mut() {
                Some((a, skip)) if *a == at => {
                    if *skip == 0 {
                        *c = None;
                        true
                    } else {
                        *skip -= 1;
                        false
                    }
                }
                _ => false,
            }
        };
        if fire {
            exec::mark_inflight(&self.scenario_name);
            self.crashed.set(Some(at));
            panic!("injected crash in user function {at:?}");
        }
    }
    /// perform the writes armed for this trigger (one-shot)
    pub fn fire(&self, trigger: Trigger, in_handler: bool) {
        loop {
            let a = {
                let mut armed = self.armed.borrow_mut();
                match armed.iter().position(|a| a.trigger == trigger) {
                    Some(p) => armed.remove(p),
                    None => break,
                }
            };
            let (saw_old, fresh) = do_write(&a.handle, a.kind);
            self.performed.borrow_mut().push(Performed { var: a.var, kind: a.kind, saw_old, fresh, in_handler });
            // the closure's clone of the Var handle is dropped here, inside stabilise
            drop(a);
        }
    }
    fn invoke(&self, key: NodeKey, args: Vec<SV>) {
        let inv = Inv { round: self.round.get(), key, args };
        self.log.borrow_mut().push(inv.clone());
        {
            let mut h = self.on_invoke.borrow_mut();
            if let Some(h) = h.as_mut() {
                h(&inv)
            }
        }
        if let NodeKey::Main(i) = key {
            self.fire(Trigger::Node(i), false);
        }
        let at = match key {
            NodeKey::Main(i) => CrashAt::Fn(NodeKeyKind::Main, i),
            NodeKey::BindFn(i) => CrashAt::Fn(NodeKeyKind::BindFn, i),
            NodeKey::Rhs(i, ..) => CrashAt::Fn(NodeKeyKind::Rhs, i),
            NodeKey::Cutoff(i) => CrashAt::Fn(NodeKeyKind::Cutoff, i),
        };
        self.maybe_crash(at);
    }
}

/// a source of change events for the C06 gating monitor
#[derive(Clone, Copy, Debug, PartialEq, Eq, PartialOrd, Ord)]
pub enum GSrc {
    Node(usize),
    BindFn(usize),
    RhsOf(usize),
}

#[derive(Clone, Copy, Debug, PartialEq, Eq)]
pub enum GuardOwner {
    Main(usize),
    BindFn(usize),
    Rhs(usize, u32),
}
/// A value captured by a closure handed to the engine; counts how often it is dropped.
pub struct Guard(pub Rc<Cell<u32>>);
impl Drop for Guard {
    fn drop(&mut self) {
        self.0.set(self.0.get() + 1);
    }
}

pub enum Handle {
    S(Incr<SV>),
    P(Incr<Pair>),
}

pub struct NodeEntry {
    pub spec: Spec,
    pub handle: Option<Handle>,
    pub cutoff: CutKind,
}

#[derive(Clone, Copy, PartialEq, Eq, Debug)]
pub enum CutKind {
    Default,
    Never,
    Always,
    Fn,
    Boxed,
}

#[derive(Clone, Copy, PartialEq, Eq, Debug)]
pub enum OSt {
    Created,
    InUse,
    Dead,
}

pub struct SubSlot {
    pub token: SubscriptionToken,
    pub active: bool,
    /// how often the token was handed to unsubscribe (tokens are Copy: a second call must be a no-op)
    pub unsubs: u8,
    /// round in which the subscription was made
    pub made_round: u32,
    pub delivered: u32,
    pub got_invalidated: bool,
    /// made from inside an update handler of this round: first eligible in the next stabilise
    pub made_in_handler_of_round: Option<u32>,
}

pub struct ObsSlot {
    pub handles: Vec<Observer<SV>>,
    pub node: usize,
    pub st: OSt,
    pub last: Option<Result<SV, ObserverError>>,
    pub subs: Vec<SubSlot>,
    pub created_round: u32,
    pub pinned: bool,
    pub smuggled: Option<(usize, bool, u32, u8)>,
    pub state_unsub_after_gone: bool,
    /// the observed node is a top-level map over the smuggled node
    pub over: bool,
}

#[derive(Clone, Copy, Debug, PartialEq, Eq)]
pub enum WKind {
    Set,
    Update,
    Modify,
    Replace,
    ReplaceWith,
}
pub const WKINDS: [WKind; 5] = [WKind::Set, WKind::Update, WKind::Modify, WKind::Replace, WKind::ReplaceWith];
const FN_OVER: u16 = 103;
const FN_UPDATE: u16 = 100;
const FN_MODIFY: u16 = 101;
const FN_REPLACE_WITH: u16 = 102;

/// a write to be performed from inside a user function during stabilise
pub struct Armed {
    pub trigger: Trigger,
    pub var: usize,
    pub kind: WKind,
    pub handle: Var<SV>,
}
#[derive(Clone, Copy, Debug, PartialEq, Eq)]
pub enum CrashAt {
    Fn(NodeKeyKind, usize),
    Handler(usize),
}
#[derive(Clone, Copy, Debug, PartialEq, Eq)]
pub enum NodeKeyKind {
    Main,
    BindFn,
    Rhs,
    Cutoff,
}
#[derive(Clone, Copy, Debug, PartialEq, Eq)]
pub enum Trigger {
    Node(usize),
    Handler(usize),
}
/// what a write performed inside stabilise did, as seen by the harness closure
#[derive(Clone, Debug)]
pub struct Performed {
    pub var: usize,
    pub kind: WKind,
    /// the value the write operation showed to its closure / returned (None for set)
    pub saw_old: Option<SV>,
    pub fresh: Option<SV>,
    pub in_handler: bool,
}

/// Perform one write with the public API; returns (old value shown/returned, fresh leaf used).
pub fn do_write(v: &Var<SV>, kind: WKind) -> (Option<SV>, Option<SV>) {
    match kind {
        WKind::Set => {
            let n = fresh();
            v.set(n.clone());
            (None, Some(n))
        }
        WKind::Update => {
            let seen = Rc::new(RefCell::new(None));
            let s2 = seen.clone();
            v.update(move |old| {
                *s2.borrow_mut() = Some(old.clone());
                app(FN_UPDATE, &[old])
            });
            let o = seen.borrow().clone();
            (o, None)
        }
        WKind::Modify => {
            let seen = Rc::new(RefCell::new(None));
            let s2 = seen.clone();
            v.modify(move |x| {
                *s2.borrow_mut() = Some(x.clone());
                *x = app(FN_MODIFY, &[x.clone()]);
            });
            let o = seen.borrow().clone();
            (o, None)
        }
        WKind::Replace => {
            let n = fresh();
            let old = v.replace(n.clone());
            (Some(old), Some(n))
        }
        WKind::ReplaceWith => {
            let old = v.replace_with(|x| app(FN_REPLACE_WITH, &[x.clone()]));
            (Some(old), None)
        }
    }
}

/// effect of a write on the model value
pub fn model_write(cur: &SV, kind: WKind, fresh_leaf: &Option<SV>) -> SV {
    match kind {
        WKind::Set | WKind::Replace => fresh_leaf.clone().unwrap(),
        WKind::Update => app(FN_UPDATE, &[cur.clone()]),
        WKind::Modify => app(FN_MODIFY, &[cur.clone()]),
        WKind::ReplaceWith => app(FN_REPLACE_WITH, &[cur.clone()]),
    }
}

#[derive(Clone, Debug, PartialEq, Eq)]
pub enum Action {
    WriteK(usize, WKind),
    ArmWrite(usize, usize, WKind),
    ArmHandlerWrite(usize, usize, WKind),
    DropVar(usize),
    ArmPanic(CrashAt, u32),
    ArmHandlerSubscribe(usize, usize),
    ArmHandlerDropSelf(usize),
    DropState,
    DropVarHandle(usize),
    Stabilise,
    Write(usize),
    /// like Write, for warm starts: not subject to the `writable` list
    WriteAny(usize),
    WriteSame(usize),
    WriteSnd(usize),
    WriteBoth(usize),
    Observe(usize),
    DropObs(usize),
    Disallow(usize),
    CloneObs(usize),
    Subscribe(usize),
    Unsubscribe(usize, usize),
    UnsubscribeForeign(usize, usize),
    ObserveSmuggled(usize),
    /// build `node.map(f)` at top level over a node smuggled out of a bind closure and observe it
    ObserveMapOverSmuggled(usize),
    /// observe a node with an observer that is never dropped afterwards
    Pin(usize),
    StateUnsubscribe(usize, usize),
    SetCutoff(usize, CutKind),
    DropHandle(usize),
    Make(usize),
}

#[derive(Clone, Default)]
pub struct Ops {
    pub write: bool,
    pub observe: bool,
    pub drop_obs: bool,
    pub disallow: bool,
    pub clone_obs: bool,
    pub subscribe: bool,
    pub unsubscribe: bool,
    pub set_cutoff: Vec<CutKind>,
    pub drop_handle: bool,
    pub scope_call_in_closure: bool,
    pub state_unsubscribe: bool,
    pub observe_smuggled: bool,
    pub subscribe_smuggled_only: bool,
    pub map_over_smuggled: bool,
    pub write_same: bool,
    /// the five write operations instead of plain set
    pub write_kinds: bool,
    /// nodes whose function may perform an armed write
    pub arm_nodes: Vec<usize>,
    pub arm_handlers: bool,
    pub drop_var: bool,
    pub wkinds_outside: Vec<WKind>,
    pub arm_vars: Vec<usize>,
    /// user functions at which a panic may be injected
    pub crash_points: Vec<(CrashAt, u32)>,
    pub drop_state: bool,
    pub arm_handler_subscribe: bool,
    pub arm_handler_drop_self: bool,
    pub drop_var_handle: bool,
}

#[derive(Clone, Default)]
pub struct Monitors {
    pub c01: bool,
    pub c02: bool,
    pub c05: bool,
    pub c07: bool,
    pub c04: bool,
    pub c03: bool,
    pub c09: bool,
    pub c10: bool,
    pub c11: bool,
    pub c06: bool,
    pub c08: bool,
    pub c13: bool,
    pub c12: bool,
    /// gating half of C06 in worlds with necessity gaps (default cutoffs)
    pub c06g: bool,
}

#[derive(Clone)]
pub struct WorldCfg {
    pub name: String,
    pub specs: Vec<Spec>,
    /// specs that may be created later through `Make(i)` (index into this list)
    pub late_specs: Vec<Spec>,
    pub observable: Vec<usize>,
    /// nodes observed from the start by an observer that is never dropped
    pub pinned: Vec<usize>,
    pub max_obs: usize,
    pub max_subs: usize,
    /// nodes observed at construction by never-dropped observers (C06: everything stays necessary)
    pub observe_at_start: Vec<usize>,
    /// nodes whose cutoff kind is a symbolic choice made before the history starts
    pub cut_nodes: Vec<usize>,
    /// kinds offered for cut_nodes (empty = all five); `cut_eq`: fn/boxed cutoffs compare with ==
    pub cut_kinds: Vec<CutKind>,
    pub cut_eq: bool,
    /// actions applied before the counted history starts (warm start)
    pub warm: Vec<Action>,
    /// vars the history may write (empty = all)
    pub writable: Vec<usize>,
    pub len: usize,
    pub ops: Ops,
    pub mon: Monitors,
}

pub struct World {
    pub cfg: WorldCfg,
    pub state: Option<IncrState>,
    pub sh: Rc<Shared>,
    pub nodes: Vec<NodeEntry>,
    pub vars: BTreeMap<usize, (Var<SV>, SV)>,
    pub pvars: BTreeMap<usize, (Var<Pair>, Pair)>,
    pub consts: BTreeMap<usize, SV>,
    pub obs: Rc<RefCell<Vec<ObsSlot>>>,
    pub dirty: bool,
    pub late_made: Vec<bool>,
    pub stabilised_once: bool,
    /// C06 reference: engine-view value of every node, pair vars separately
    pub c06_val: BTreeMap<usize, SV>,
    /// per node: produced a result in the last stabilise that its cutoff did not suppress (C06 model)
    pub c06_ns: Vec<bool>,
    pub c06_pval: BTreeMap<usize, Pair>,
    pub written: BTreeSet<usize>,
    pub var_dropped: BTreeSet<usize>,
    pub dropped_vars: Vec<Var<SV>>,
    pub arms_used: usize,
    pub dropped_model: BTreeMap<usize, SV>,
    pub crash_armed_once: bool,
    pub armed_sub_once: bool,
    pub armed_drop_once: bool,
    pub over_nodes: Vec<Incr<SV>>,
    pub poisoned: bool,
    /// strong-count probes of every node built from a spec
    pub weaks: Vec<Box<dyn Fn() -> usize>>,
    /// C06 gating monitor: rounds in which a source produced an unsuppressed result
    pub weak_state: WeakState,
    pub g_events: BTreeMap<GSrc, Vec<u32>>,
    pub g_last_run: BTreeMap<NodeKey, u32>,
    pub g_last_result: BTreeMap<NodeKey, SV>,
    /// per stabilise: the nodes needed by a live observer during it
    pub g_cones: BTreeMap<u32, BTreeSet<usize>>,
    /// pair vars: value after each stabilise in which the var node produced an unsuppressed result
    pub g_pvar_hist: BTreeMap<usize, Vec<(u32, Pair)>>,
}

thread_local! {
    static CUT_SH: RefCell<Option<Rc<Shared>>> = RefCell::new(None);
}

/// `Cutoff::Fn` takes a plain function pointer: one instance per node index.
fn cut_fn<const I: usize>(a: &SV, b: &SV) -> bool {
    CUT_SH.with(|c| {
        if let Some(sh) = c.borrow().as_ref() {
            sh.invoke(NodeKey::Cutoff(I), vec![a.clone(), b.clone()]);
        }
    });
    let eq = CUT_SH.with(|c| c.borrow().as_ref().map_or(false, |sh| sh.cut_eq.get()));
    if eq {
        return a == b;
    }
    decide_pred(16 + I as u16, &[a.clone(), b.clone()])
}

const RHS_FN_BASE: u16 = 16;

/// generation of the nodes a bind's closure builds: outer run * 1000 + run of a bind built inside
pub fn cur_gen(gens: &BTreeMap<usize, u32>, b: usize) -> u32 {
    gens.get(&b).copied().unwrap_or(0) * 1000 + gens.get(&(100 + b)).copied().unwrap_or(0)
}

fn rhs_fn(bind: usize, then: bool, pos: u8) -> u16 {
    RHS_FN_BASE + (bind as u16) * 4 + if then { 0 } else { 2 } + pos as u16
}

impl World {
    pub fn new(cfg: &WorldCfg) -> World {
        let state = Some(IncrState::new());
        let weak_state = state.as_ref().unwrap().weak();
        let sh = Rc::new(Shared {
            log: RefCell::new(vec![]),
            round: Cell::new(0),
            in_stabilise: Cell::new(false),
            gens: RefCell::new(BTreeMap::new()),
            last_branch: RefCell::new(BTreeMap::new()),
            gen_lhs: RefCell::new(BTreeMap::new()),
            gen_lhs2: RefCell::new(BTreeMap::new()),
            smuggled: RefCell::new(vec![]),
            updates: RefCell::new(vec![]),
            on_invoke: RefCell::new(None),
            armed: RefCell::new(vec![]),
            armed_sub: RefCell::new(None),
            armed_drop_self: Cell::new(None),
            dropped_self_in: Cell::new(None),
            crash: RefCell::new(None),
            crashed: Cell::new(None),
            cut_eq: Cell::new(false),
            guards: RefCell::new(vec![]),
            smuggle: Cell::new(cfg.ops.observe_smuggled),
            scope_call: Cell::new(cfg.ops.scope_call_in_closure),
            top_scope: RefCell::new(Some(state.as_ref().unwrap().current_scope())),
            scenario_name: cfg.name.clone(),
            performed: RefCell::new(vec![]),
        });
        let mut w = World {
            cfg: cfg.clone(),
            state,
            sh,
            nodes: vec![],
            vars: BTreeMap::new(),
            pvars: BTreeMap::new(),
            consts: BTreeMap::new(),
            obs: Rc::new(RefCell::new(vec![])),
            dirty: true,
            late_made: vec![false; cfg.late_specs.len()],
            stabilised_once: false,
            c06_val: BTreeMap::new(),
            c06_ns: vec![],
            c06_pval: BTreeMap::new(),
            written: BTreeSet::new(),
            var_dropped: BTreeSet::new(),
            dropped_vars: vec![],
            arms_used: 0,
            dropped_model: BTreeMap::new(),
            crash_armed_once: false,
            armed_sub_once: false,
            armed_drop_once: false,
            over_nodes: vec![],
            poisoned: false,
            weaks: vec![],
            weak_state,
            g_events: BTreeMap::new(),
            g_last_run: BTreeMap::new(),
            g_last_result: BTreeMap::new(),
            g_cones: BTreeMap::new(),
            g_pvar_hist: BTreeMap::new(),
        };
        for s in cfg.specs.clone() {
            w.build(s);
        }
        CUT_SH.with(|c| *c.borrow_mut() = Some(w.sh.clone()));
        if cfg.mon.c07 {
            // every observer is read from inside every user function that runs during stabilise
            let weak_obs = Rc::downgrade(&w.obs);
            *w.sh.on_invoke.borrow_mut() = Some(Box::new(move |inv: &Inv| {
                let Some(o) = weak_obs.upgrade() else { return };
                let Ok(o) = o.try_borrow() else { return };
                for (k, s) in o.iter().enumerate() {
                    if let Some(h) = s.handles.first() {
                        let got = h.try_get_value();
                        cover("observer-read-inside-node-function");
                        if got != Err(ObserverError::CurrentlyStabilising) {
                            violation("C07/observer-readable-inside-node-function", format!("observer slot {k} read from inside {:?} returned {got:?}", inv.key));
                        }
                        // the panicking accessor must not hand out a value either
                        let h2 = h.clone();
                        if let Ok(v) = catch(move || h2.value()) {
                            violation("C07/value()-readable-inside-node-function", format!("Observer::value() called from inside {:?} returned {v:?} for observer slot {k}", inv.key));
                        }
                    }
                }
            }));
        }
        w.sh.cut_eq.set(cfg.cut_eq);
        for n in cfg.cut_nodes.clone() {
            let all = vec![CutKind::Default, CutKind::Never, CutKind::Always, CutKind::Fn, CutKind::Boxed];
            let kinds = if cfg.cut_kinds.is_empty() { all } else { cfg.cut_kinds.clone() };
            let k = kinds[choose(kinds.len())];
            w.set_cutoff(n, k);
            op_log(format!("SetCutoff({n}, {k:?})"));
        }
        for n in cfg.observe_at_start.clone() {
            let o = w.s_handle(n).unwrap().observe();
            w.push_observer(o, n, true, None);
        }
        w
    }

    pub fn s_handle(&self, i: usize) -> Option<Incr<SV>> {
        match self.nodes.get(i)?.handle.as_ref()? {
            Handle::S(h) => Some(h.clone()),
            Handle::P(_) => None,
        }
    }
    fn p_handle(&self, i: usize) -> Option<Incr<Pair>> {
        match self.nodes.get(i)?.handle.as_ref()? {
            Handle::P(h) => Some(h.clone()),
            Handle::S(_) => None,
        }
    }

    fn rhs_handle(&self, r: &Rhs) -> Option<Incr<SV>> {
        match r {
            Rhs::Node(j) | Rhs::SideNode(j) | Rhs::FreshMap(j) | Rhs::FreshMapCap(j) | Rhs::FreshChain(j) | Rhs::FreshGarbage(j) | Rhs::FreshBind(j, _) => self.s_handle(*j),
            Rhs::FreshConst => None,
        }
    }

    /// Build a node with the public API. Inputs must still have live handles.
    pub fn build(&mut self, spec: Spec) -> usize {
        let i = self.nodes.len();
        assert!(i < 16, "world supports at most 16 nodes");
        let f = i as u16;
        let sh = self.sh.clone();
        let key = NodeKey::Main(i);
        let g = self.sh.new_guard(if matches!(spec, Spec::Bind { .. }) { GuardOwner::BindFn(i) } else { GuardOwner::Main(i) });
        let handle = match &spec {
            Spec::Var => {
                let v0 = fresh();
                let v = self.state.as_ref().unwrap().var(v0.clone());
                let h = v.watch();
                if self.cfg.mon.c06g {
                    let sh2 = self.sh.clone();
                    h.set_cutoff_fn_boxed(move |a: &SV, b: &SV| {
                        sh2.invoke(NodeKey::Cutoff(i), vec![a.clone(), b.clone()]);
                        a == b
                    });
                }
                self.vars.insert(i, (v, v0));
                Handle::S(h)
            }
            Spec::PVar => {
                let v0 = (fresh(), fresh());
                let v = self.state.as_ref().unwrap().var(v0.clone());
                let h = v.watch();
                if self.cfg.mon.c06g {
                    let sh2 = self.sh.clone();
                    h.set_cutoff_fn_boxed(move |a: &Pair, b: &Pair| {
                        let eq = a == b;
                        sh2.invoke(NodeKey::Cutoff(i), vec![if eq { SV::lit(1) } else { SV::lit(0) }]);
                        eq
                    });
                }
                self.pvars.insert(i, (v, v0));
                Handle::P(h)
            }
            Spec::Const => {
                let c = fresh();
                self.consts.insert(i, c.clone());
                Handle::S(self.state.as_ref().unwrap().constant(c))
            }
            Spec::Map(a) => {
                let a = self.s_handle(*a).unwrap();
                Handle::S(a.map(move |x| {
                    let _ = &g;
                    sh.invoke(key, vec![x.clone()]);
                    app(f, &[x.clone()])
                }))
            }
            Spec::Map2(a, b) => {
                let (a, b) = (self.s_handle(*a).unwrap(), self.s_handle(*b).unwrap());
                Handle::S(a.map2(&b, move |x, y| {
                    let _ = &g;
                    sh.invoke(key, vec![x.clone(), y.clone()]);
                    app(f, &[x.clone(), y.clone()])
                }))
            }
            Spec::Map3(a, b, c) => {
                let (a, b, c) = (self.s_handle(*a).unwrap(), self.s_handle(*b).unwrap(), self.s_handle(*c).unwrap());
                Handle::S(a.map3(&b, &c, move |x, y, z| {
                    let _ = &g;
                    sh.invoke(key, vec![x.clone(), y.clone(), z.clone()]);
                    app(f, &[x.clone(), y.clone(), z.clone()])
                }))
            }
            Spec::MapN(v) => {
                let hs: Vec<Incr<SV>> = v.iter().map(|j| self.s_handle(*j).unwrap()).collect();
                match hs.len() {
                    4 => Handle::S(hs[0].map4(&hs[1], &hs[2], &hs[3], move |a, b, c, d| {
                        let _ = &g;
                        let args = vec![a.clone(), b.clone(), c.clone(), d.clone()];
                        sh.invoke(key, args.clone());
                        app(f, &args)
                    })),
                    5 => Handle::S(hs[0].map5(&hs[1], &hs[2], &hs[3], &hs[4], move |a, b, c, d, e| {
                        let _ = &g;
                        let args = vec![a.clone(), b.clone(), c.clone(), d.clone(), e.clone()];
                        sh.invoke(key, args.clone());
                        app(f, &args)
                    })),
                    6 => Handle::S(hs[0].map6(&hs[1], &hs[2], &hs[3], &hs[4], &hs[5], move |a, b, c, d, e, g6| {
                        let _ = &g;
                        let args = vec![a.clone(), b.clone(), c.clone(), d.clone(), e.clone(), g6.clone()];
                        sh.invoke(key, args.clone());
                        app(f, &args)
                    })),
                    n => panic!("symx: MapN with {n} inputs"),
                }
            }
            Spec::MapWithOld(a) => {
                let a = self.s_handle(*a).unwrap();
                Handle::S(a.map_with_old(move |old: Option<SV>, x| {
                    let _ = &g;
                    sh.invoke(key, vec![x.clone()]);
                    let new = app(f, &[x.clone()]);
                    // "did change" reported truthfully: a pure function that ignores the old value
                    let changed = match &old {
                        None => true,
                        Some(o) => !(o == &new),
                    };
                    (new, changed)
                }))
            }
            Spec::Fold(v) => {
                let hs: Vec<Incr<SV>> = v.iter().map(|j| self.s_handle(*j).unwrap()).collect();
                Handle::S(self.state.as_ref().unwrap().fold(hs, SV::lit(0), move |acc, x| {
                    let _ = &g;
                    sh.invoke(key, vec![acc.clone(), x.clone()]);
                    app(f, &[acc, x.clone()])
                }))
            }
            Spec::FoldP(v) => {
                let hs: Vec<Incr<SV>> = v.iter().map(|j| self.s_handle(*j).unwrap()).collect();
                Handle::P(self.state.as_ref().unwrap().fold(hs, (SV::lit(0), SV::lit(0)), move |acc: Pair, x: &SV| {
                    let _ = &g;
                    sh.invoke(key, vec![acc.0.clone(), x.clone()]);
                    (app(f, &[acc.0, x.clone()]), SV::lit(0))
                }))
            }
            Spec::Zip(a, b) => {
                let (a, b) = (self.s_handle(*a).unwrap(), self.s_handle(*b).unwrap());
                Handle::S(a.zip(&b).map(move |p| {
                    let _ = &g;
                    sh.invoke(key, vec![p.0.clone(), p.1.clone()]);
                    app(f, &[p.0.clone(), p.1.clone()])
                }))
            }
            Spec::DependOn(a, b) => {
                let (a, b) = (self.s_handle(*a).unwrap(), self.s_handle(*b).unwrap());
                Handle::S(a.depend_on(&b))
            }
            Spec::Fst(p) => {
                let p = self.p_handle(*p).unwrap();
                Handle::S(p.map_ref(|p| &p.0))
            }
            Spec::PMap(p) => {
                let p = self.p_handle(*p).unwrap();
                Handle::S(p.map(move |p| {
                    let _ = &g;
                    sh.invoke(key, vec![p.0.clone(), p.1.clone()]);
                    app(f, &[p.0.clone(), p.1.clone()])
                }))
            }
            Spec::RefIdP(a) => {
                let p = self.p_handle(*a).unwrap();
                Handle::P(p.map_ref(|x| x))
            }
            Spec::RefId(a) => {
                let a = self.s_handle(*a).unwrap();
                Handle::S(a.map_ref(|x| x))
            }
            Spec::Bind { lhs, then, els } => {
                let lhs_h = self.s_handle(*lhs).unwrap();
                let then_h = self.rhs_handle(then);
                let els_h = self.rhs_handle(els);
                let second = |r: &Rhs| if let Rhs::FreshBind(_, k) = r { self.s_handle(*k) } else { None };
                let then_h2 = second(then);
                let els_h2 = second(els);
                let (then, els) = (then.clone(), els.clone());
                Handle::S(lhs_h.binds(move |ws_arg: &WeakState, x: &SV| {
                    let ws = ws_arg.clone();
                    let _ = &g;
                    sh.invoke(NodeKey::BindFn(i), vec![x.clone()]);
                    let take_then = decide_pred(i as u16, &[x.clone()]);
                    let gen = {
                        let mut g = sh.gens.borrow_mut();
                        let e = g.entry(i).or_insert(0);
                        *e += 1;
                        *e
                    };
                    let gen = gen * 1000;
                    sh.last_branch.borrow_mut().insert(i, take_then);
                    sh.gen_lhs.borrow_mut().insert((i, gen), x.clone());
                    let (r, h) = if take_then { (&then, &then_h) } else { (&els, &els_h) };
                    let h2 = if take_then { &then_h2 } else { &els_h2 };
                    make_rhs(&sh, &ws, i, take_then, gen, r, h.as_ref(), h2.as_ref(), x)
                }))
            }
        };
        if matches!(spec, Spec::Var | Spec::PVar | Spec::Const | Spec::DependOn(..) | Spec::Fst(_) | Spec::RefId(_) | Spec::RefIdP(_)) {
            // no harness closure was handed to the engine for this node
            self.sh.guards.borrow_mut().pop();
        }
        match &handle {
            Handle::S(h) => {
                let w = h.weak();
                self.weaks.push(Box::new(move || w.strong_count()));
            }
            Handle::P(h) => {
                let w = h.weak();
                self.weaks.push(Box::new(move || w.strong_count()));
            }
        }
        self.nodes.push(NodeEntry { spec, handle: Some(handle), cutoff: CutKind::Default });
        i
    }

    pub fn set_cutoff(&mut self, n: usize, k: CutKind) {
        let h = self.s_handle(n).unwrap();
        let sh = self.sh.clone();
        match k {
            CutKind::Default => h.set_cutoff(Cutoff::PartialEq),
            CutKind::Never => h.set_cutoff(Cutoff::Never),
            CutKind::Always => h.set_cutoff(Cutoff::Always),
            CutKind::Fn => h.set_cutoff(Cutoff::Fn(match n {
                0 => cut_fn::<0>,
                1 => cut_fn::<1>,
                2 => cut_fn::<2>,
                3 => cut_fn::<3>,
                4 => cut_fn::<4>,
                5 => cut_fn::<5>,
                6 => cut_fn::<6>,
                7 => cut_fn::<7>,
                8 => cut_fn::<8>,
                9 => cut_fn::<9>,
                10 => cut_fn::<10>,
                11 => cut_fn::<11>,
                12 => cut_fn::<12>,
                13 => cut_fn::<13>,
                14 => cut_fn::<14>,
                _ => cut_fn::<15>,
            })),
            CutKind::Boxed => h.set_cutoff_fn_boxed(move |a: &SV, b: &SV| {
                sh.invoke(NodeKey::Cutoff(n), vec![a.clone(), b.clone()]);
                if sh.cut_eq.get() {
                    return a == b;
                }
                decide_pred(16 + n as u16, &[a.clone(), b.clone()])
            }),
        }
        self.nodes[n].cutoff = k;
    }

    /// does node `i`'s cutoff suppress the step old -> new? (reference side)
    fn c06_cut(&self, i: usize, old: &SV, new: &SV, cut_log: &mut Vec<Inv>, round: u32) -> bool {
        match self.nodes[i].cutoff {
            CutKind::Default => exec::decide(F::eq(old, new)),
            CutKind::Never => false,
            CutKind::Always => true,
            CutKind::Fn | CutKind::Boxed => {
                // the cutoff function must have been consulted with (old, new), in that order
                let pos = cut_log.iter().position(|inv| inv.key == NodeKey::Cutoff(i));
                match pos {
                    None => violation("C06/cutoff-function-not-consulted", format!("node {i} produced a new result in stabilise #{round} but its cutoff function was not called")),
                    Some(p) => {
                        let inv = cut_log.remove(p);
                        let (a2, o2, n2) = (inv.args.clone(), old.clone(), new.clone());
                        require("C06/cutoff-arguments", F::and(vec![F::eq(&inv.args[0], old), F::eq(&inv.args[1], new)]), move || format!("cutoff of node {i} was called with {a2:?}, expected (old, new) = ({o2:?}, {n2:?})"));
                    }
                }
                decide_pred(16 + i as u16, &[old.clone(), new.clone()])
            }
        }
    }

    /// Writes performed inside the stabilise that just returned: they were invisible to it
    /// (checked by the C01/C02 monitors, which ran against the pre-stabilise model), compose
    /// in program order, and are what the next stabilise propagates.
    fn c08_after_stabilise(&mut self, round: u32) {
        let performed: Vec<Performed> = self.sh.performed.borrow_mut().drain(..).collect();
        let roots = self.live_roots();
        let lb = self.sh.last_branch.borrow().clone();
        let cone = self.cone(&roots, &|b| lb.get(&b).copied());
        let mut touched_needed = false;
        for p in &performed {
            cover(if p.in_handler { "write-from-update-handler" } else { "write-from-node-function" });
            let cur = self.vars.get(&p.var).map(|e| e.1.clone()).unwrap_or_else(|| self.dropped_model[&p.var].clone());
            if let Some(o) = &p.saw_old {
                let (o2, c2, k) = (o.clone(), cur.clone(), p.kind);
                require("C08/deferred-write-saw-wrong-old-value", F::eq(o, &cur), move || format!("{k:?} inside stabilise #{round} showed/returned {o2:?}; program order gives {c2:?}"));
            }
            let new = model_write(&cur, p.kind, &p.fresh);
            match self.vars.get_mut(&p.var) {
                Some(e) => e.1 = new,
                None => {
                    cover("deferred-write-on-var-whose-last-handle-was-dropped");
                    self.dropped_model.insert(p.var, new);
                }
            }
            if cone.contains(&p.var) {
                touched_needed = true;
            }
            self.dirty = true;
        }
        for (i, (v, m)) in &self.vars {
            let got = v.get();
            let (g2, m2) = (got.clone(), m.clone());
            require("C08/get-after-stabilise", F::eq(&got, m), move || format!("var {i}: get() after stabilise #{round} returned {g2:?}, writes in program order give {m2:?}"));
        }
        let stable = self.state.as_ref().unwrap().is_stable();
        if touched_needed && stable {
            violation("C08/stable-after-deferred-write", format!("an observed variable was written inside stabilise #{round} but is_stable() is true"));
        }
        if performed.is_empty() && !stable {
            violation("C08/unstable-without-pending-work", format!("is_stable() is false right after stabilise #{round} although nothing was written inside it"));
        }
    }

    pub fn drop_all_handles(&mut self) {
        let ws = self.weak_state.clone();
        let _ = &ws;
        for s in self.obs.borrow_mut().iter_mut() {
            s.handles.clear();
        }
        for n in self.nodes.iter_mut() {
            n.handle = None;
        }
        self.vars.clear();
        self.pvars.clear();
        self.sh.smuggled.borrow_mut().clear();
        self.over_nodes.clear();
        self.sh.armed.borrow_mut().clear();
        // one stabilise lets the engine release what it defers (dead vars, unlinked observers)
        if let Some(st) = self.state.as_ref() {
            st.stabilise();
        }
        self.state = None;
    }

    /// Nodes that some live handle still (transitively) refers to.
    fn retained(&self) -> BTreeSet<usize> {
        let mut roots: Vec<usize> = vec![];
        for (i, n) in self.nodes.iter().enumerate() {
            if n.handle.is_some() {
                roots.push(i);
            }
        }
        for (i, _) in &self.vars {
            roots.push(*i);
        }
        for (i, _) in &self.pvars {
            roots.push(*i);
        }
        for s in self.obs.borrow().iter() {
            if !s.handles.is_empty() {
                roots.push(s.node);
            }
        }
        let mut seen = BTreeSet::new();
        while let Some(i) = roots.pop() {
            if !seen.insert(i) {
                continue;
            }
            roots.extend(self.nodes[i].spec.inputs());
            if let Spec::Bind { then, els, .. } = &self.nodes[i].spec {
                for r in [then, els] {
                    match r {
                        Rhs::Node(j) | Rhs::SideNode(j) | Rhs::FreshMap(j) | Rhs::FreshMapCap(j) | Rhs::FreshChain(j) | Rhs::FreshGarbage(j) => roots.push(*j),
                        Rhs::FreshBind(j, k) => {
                            roots.push(*j);
                            roots.push(*k);
                        }
                        Rhs::FreshConst => {}
                    }
                }
            }
        }
        seen
    }

    /// C12: everything no live handle refers to has been released (called after a stabilise,
    /// and once more when every handle and the state are gone).
    pub fn leak_check(&self, when: &str) {
        let retained = self.retained();
        if self.state.is_none() && self.weak_state.strong_count() != 0 {
            violation("C12/state-not-released", format!("{when}: the IncrState handle was dropped but the state is still alive (strong_count = {})", self.weak_state.strong_count()));
        }
        for (i, probe) in self.weaks.iter().enumerate() {
            if !retained.contains(&i) && probe() != 0 {
                let kind = self.nodes[i].spec.kind_name();
                violation(&format!("C12/node-not-released/{kind}"), format!("{when}: node {i} ({kind}) has no live handle, observer or dependant left but strong_count = {}", probe()));
            }
        }
        let gens = self.sh.gens.borrow().clone();
        for (owner, count) in self.sh.guards.borrow().iter() {
            let (released, what) = match owner {
                GuardOwner::Main(i) | GuardOwner::BindFn(i) => (!retained.contains(i), format!("closure of node {i}")),
                GuardOwner::Rhs(b, g) => (!retained.contains(b) || cur_gen(&gens, *b) > *g, format!("closure of a node built by run {g} of bind {b}")),
            };
            let c = count.get();
            if c > 1 {
                violation("C12/captured-value-dropped-twice", format!("{when}: value captured by the {what} was dropped {c} times"));
            }
            if released && c == 0 && !self.cfg.ops.observe_smuggled {
                let role = match owner {
                    GuardOwner::Main(i) => self.nodes[*i].spec.kind_name(),
                    GuardOwner::BindFn(_) => "BindFn",
                    GuardOwner::Rhs(..) => "BindRhsNode",
                };
                violation(&format!("C12/captured-value-not-released/{role}"), format!("{when}: the {what} is unreachable but the value it captured was never dropped"));
            }
            if !released && c != 0 {
                violation("C12/captured-value-dropped-early", format!("{when}: the {what} is still reachable but its captured value was dropped"));
            }
        }
    }

    /// A user function panicked inside stabilise and the caller caught it (C13).
    fn after_crash(&mut self, round: u32, log_start: usize) {
        self.poisoned = true;
        let at = self.sh.crashed.get().unwrap();
        let from_handler = matches!(at, CrashAt::Handler(_));
        cover(match at {
            CrashAt::Fn(NodeKeyKind::Main, _) => "panic-in-node-function",
            CrashAt::Fn(NodeKeyKind::BindFn, _) => "panic-in-bind-closure",
            CrashAt::Fn(NodeKeyKind::Rhs, _) => "panic-in-scope-created-node",
            CrashAt::Fn(NodeKeyKind::Cutoff, _) => "panic-in-cutoff-function",
            CrashAt::Handler(_) => "panic-in-update-handler",
        });
        // observers that were created before this stabilise are in use now, if it got that far
        let mut memo = BTreeMap::new();
        let n_slots = self.obs.borrow().len();
        for k in 0..n_slots {
            let (node, dead, has) = {
                let o = self.obs.borrow();
                (o[k].node, o[k].st == OSt::Dead, !o[k].handles.is_empty())
            };
            if !has {
                continue;
            }
            let got = self.obs.borrow()[k].handles[0].try_get_value();
            // the panicking accessor must refuse as well
            let h = self.obs.borrow()[k].handles[0].clone();
            let via_value = catch(move || h.value());
            if let (Err(_), Ok(v)) = (&got, &via_value) {
                violation("C13/value()-readable-while-try_get_value-refuses", format!("after a panic in {at:?}, observer slot {k}: try_get_value = {got:?} but value() returned {v:?}"));
            }
            match got {
                Err(_) => {}
                Ok(v) => {
                    if dead {
                        violation("C13/dead-observer-readable-after-panic", format!("slot {k} returned a value"));
                    } else if !from_handler {
                        violation("C13/value-readable-after-panic-in-propagation", format!("a panic in {at:?} escaped stabilise #{round}, yet observer slot {k} on node {node} returned {v:?}"));
                    } else {
                        let want = self.eval(node, &mut memo);
                        let (v2, w2) = (v.clone(), want.clone());
                        require("C13/partial-result-after-handler-panic", F::eq(&v, &want), move || format!("after a panic in an update handler observer slot {k} returned {v2:?}, the fully propagated value is {w2:?}"));
                    }
                }
            }
        }
        // observers created after the panic must not become readable through the refused stabilise
        let mut late: Vec<(usize, Observer<SV>)> = vec![];
        for n in self.cfg.observable.clone() {
            if let Some(h) = self.s_handle(n) {
                late.push((n, h.observe()));
            }
        }
        // a further stabilise must refuse to run
        let before = self.sh.log.borrow().len();
        let st = self.state.clone().unwrap();
        // (through either public entry point)
        let via_debug = choose(2) == 1;
        if via_debug {
            cover("stabilise_debug-after-the-panic");
        }
        let again = catch(move || if via_debug { st.stabilise_debug("/nonexistent/symx") } else { st.stabilise() });
        let ran = self.sh.log.borrow().len() - before;
        match again {
            Ok(()) => violation("C13/stabilise-runs-after-panic", format!("stabilise returned normally after a panic escaped the previous one ({ran} user functions ran)")),
            Err(_) if ran > 0 => violation("C13/stabilise-computes-before-refusing", format!("{ran} user functions ran in the stabilise after the poisoned one")),
            Err(_) => {}
        }
        for (n, o) in &late {
            cover("observer-created-after-the-panic");
            match o.try_get_value() {
                Err(_) => {}
                Ok(v) => {
                    if !from_handler {
                        violation("C13/late-observer-readable-after-panic-in-propagation", format!("observer created after the panic on node {n} returned {v:?}"));
                    } else {
                        let want = self.eval(*n, &mut memo);
                        let (v2, w2, nn) = (v.clone(), want.clone(), *n);
                        require("C13/late-observer-shows-stale-value", F::eq(&v, &want), move || format!("an observer created after a handler panic became readable through a refused stabilise and returned {v2:?} for node {nn}; the propagated value is {w2:?}"));
                    }
                }
            }
        }
        // keep them alive until the world is dropped (their drop is part of the final teardown)
        for (n, o) in late {
            self.obs.borrow_mut().push(ObsSlot { handles: vec![o], node: n, st: OSt::Dead, last: None, subs: vec![], created_round: round, pinned: false, smuggled: None, state_unsub_after_gone: false, over: false });
        }
        let _ = log_start;
        // the caller may go on writing variables after it caught the panic (whether the write is
        // accepted or refused is not the point): the teardown that follows must still be clean
        if !self.vars.is_empty() && choose(2) == 1 {
            let (i, v) = self.vars.iter().next().map(|(i, e)| (*i, e.0.clone())).unwrap();
            op_log(format!("Write({i}) after the panic"));
            let _ = catch(move || v.set(fresh()));
            cover("var-written-after-the-panic");
        }
    }

    /// did `src` (or, through transparent nodes, one of its inputs) produce an unsuppressed
    /// result in a round of (lo, hi]?
    fn g_changed(&self, j: usize, lo: u32, hi: u32, depth: u32) -> bool {
        let hit = |s: GSrc| self.g_events.get(&s).map_or(false, |v| v.iter().any(|r| *r > lo && *r <= hi));
        if depth > 8 {
            return true;
        }
        match &self.nodes[j].spec {
            Spec::Const => false,
            Spec::RefId(a) | Spec::RefIdP(a) => self.g_changed(*a, lo, hi, depth + 1),
            Spec::Fst(a) => {
                // map_ref(.0) of a pair var: it produces an unsuppressed result when the var does and
                // either the projection differs, or the map_ref node was not needed in that round
                // (it then missed the change and reports one conservatively when it is needed again)
                let Some(hist) = self.g_pvar_hist.get(a) else { return true };
                for (idx, (r, val)) in hist.iter().enumerate() {
                    if *r <= lo || *r > hi {
                        continue;
                    }
                    let missed = !self.g_cones.get(r).map_or(false, |c| c.contains(&j));
                    let changed = match idx.checked_sub(1).map(|p| &hist[p].1) {
                        None => true,
                        Some(prev) => !exec::decide(F::eq(&prev.0, &val.0)),
                    };
                    if missed || changed {
                        return true;
                    }
                }
                false
            }
            Spec::DependOn(a, b) => self.g_changed(*a, lo, hi, depth + 1) || self.g_changed(*b, lo, hi, depth + 1),
            Spec::Bind { lhs, then, els } => {
                if hit(GSrc::BindFn(j)) || hit(GSrc::RhsOf(j)) || self.g_changed(*lhs, lo, hi, depth + 1) {
                    return true;
                }
                for r in [then, els] {
                    match r {
                        Rhs::Node(k) | Rhs::SideNode(k) | Rhs::FreshMap(k) | Rhs::FreshMapCap(k) | Rhs::FreshChain(k) | Rhs::FreshGarbage(k) => {
                            if self.g_changed(*k, lo, hi, depth + 1) {
                                return true;
                            }
                        }
                        Rhs::FreshBind(a, b) => {
                            if self.g_changed(*a, lo, hi, depth + 1) || self.g_changed(*b, lo, hi, depth + 1) {
                                return true;
                            }
                        }
                        Rhs::FreshConst => {}
                    }
                }
                false
            }
            _ => hit(GSrc::Node(j)),
        }
    }

    /// C06, first half, with default cutoffs everywhere and nodes coming and going: a function
    /// that has run before runs again only if one of its inputs produced a result, since then,
    /// that its cutoff did not suppress.
    fn c06_gating(&mut self, round: u32, log: &[Inv]) {
        // a pair var's first computation is not visible through its cutoff: it happens in the first
        // stabilise in which the var is needed
        let needed = self.g_cones.get(&round).cloned().unwrap_or_default();
        for (v, pv) in &self.pvars {
            if needed.contains(v) && !self.g_pvar_hist.contains_key(v) {
                self.g_pvar_hist.insert(*v, vec![(round, pv.1.clone())]);
            }
        }
        let mut i = 0;
        while i < log.len() {
            let inv = &log[i];
            // group the calls of one fold evaluation
            let mut last = i;
            if let NodeKey::Main(n) = inv.key {
                if matches!(self.nodes[n].spec, Spec::Fold(_) | Spec::FoldP(_)) {
                    while last + 1 < log.len() && log[last + 1].key == inv.key {
                        last += 1;
                    }
                }
            }
            let key = inv.key;
            match key {
                NodeKey::Cutoff(v) => {
                    // a variable node was recomputed and compared old with new
                    let changed = if inv.args.len() == 2 { !exec::decide(F::eq(&inv.args[0], &inv.args[1])) } else { matches!(&*inv.args[0].0, crate::term::T::Lit(0)) };
                    if changed {
                        self.g_events.entry(GSrc::Node(v)).or_default().push(round);
                        if let Some(pv) = self.pvars.get(&v) {
                            let val = pv.1.clone();
                            let h = self.g_pvar_hist.entry(v).or_default();
                            if h.last().map_or(true, |(r, _)| *r != round) {
                                h.push((round, val));
                            }
                        }
                    }
                }
                NodeKey::Main(_) | NodeKey::BindFn(_) | NodeKey::Rhs(..) => {
                    let inputs: Vec<usize> = match key {
                        NodeKey::Main(n) => self.nodes[n].spec.inputs(),
                        NodeKey::BindFn(n) => self.nodes[n].spec.inputs(),
                        NodeKey::Rhs(b, branch, _, pos) => match &self.nodes[b].spec {
                            Spec::Bind { then, els, .. } => match if branch { then } else { els } {
                                Rhs::FreshMap(j) | Rhs::FreshMapCap(j) | Rhs::FreshGarbage(j) | Rhs::SideNode(j) => vec![*j],
                                Rhs::FreshChain(j) => if pos == 0 { vec![*j] } else { vec![] },
                                Rhs::FreshBind(a, k) => if pos == 9 { vec![*a] } else { vec![*k] },
                                _ => vec![],
                            },
                            _ => vec![],
                        },
                        _ => vec![],
                    };
                    let chain_second = matches!(key, NodeKey::Rhs(_, _, _, 1));
                    if let Some(prev) = self.g_last_run.get(&key).copied() {
                        cover("function-ran-again");
                        let ok = chain_second || inputs.iter().any(|j| self.g_changed(*j, prev, round, 0));
                        if !ok {
                            let role = self.role_name(key);
                            violation(&format!("C06/reinvoked-without-unsuppressed-input/{role}"), format!("{key:?} ran in stabilise #{round}; it last ran in #{prev} and none of its inputs {inputs:?} produced an unsuppressed result since"));
                        }
                    }
                    // its own result
                    let f = match key {
                        NodeKey::Main(n) => Some(n as u16),
                        _ => None,
                    };
                    let src = match key {
                        NodeKey::Main(n) => GSrc::Node(n),
                        NodeKey::BindFn(n) => GSrc::BindFn(n),
                        NodeKey::Rhs(b, ..) => GSrc::RhsOf(b),
                        NodeKey::Cutoff(n) => GSrc::Node(n),
                    };
                    let changed = match f {
                        Some(f) => {
                            let res = app(f, &log[last].args);
                            let ch = match self.g_last_result.get(&key) {
                                None => true,
                                Some(p) => !exec::decide(F::eq(p, &res)),
                            };
                            self.g_last_result.insert(key, res);
                            ch
                        }
                        None => true,
                    };
                    if changed {
                        self.g_events.entry(src).or_default().push(round);
                    }
                    self.g_last_run.insert(key, round);
                }
            }
            i = last + 1;
        }
    }

    fn c06_after_stabilise(&mut self, round: u32, log: &[Inv]) {
        let first = round == 1;
        let n = self.nodes.len();
        let mut ns = vec![false; n];
        let mut cut_log: Vec<Inv> = log.iter().filter(|i| matches!(i.key, NodeKey::Cutoff(_))).cloned().collect();
        for i in 0..n {
            let f = i as u16;
            let spec = self.nodes[i].spec.clone();
            let kind = spec.kind_name();
            // expected evaluation of node i in this stabilise: Some(argument lists) or None
            let mut expect_inv: Option<Vec<Vec<SV>>> = None;
            let mut has_fn = true;
            match &spec {
                Spec::Var => {
                    has_fn = false;
                    if first || self.written.contains(&i) {
                        let new = self.vars[&i].1.clone();
                        let old = self.c06_val.get(&i).cloned();
                        ns[i] = match &old {
                            None => true,
                            Some(o) => !self.c06_cut(i, o, &new, &mut cut_log, round),
                        };
                        self.c06_val.insert(i, new);
                    }
                }
                Spec::PVar => {
                    has_fn = false;
                    if first || self.written.contains(&i) {
                        let new = self.pvars[&i].1.clone();
                        let old = self.c06_pval.get(&i).cloned();
                        ns[i] = match &old {
                            None => true,
                            Some(o) => !exec::decide(F::and(vec![F::eq(&o.0, &new.0), F::eq(&o.1, &new.1)])),
                        };
                        self.c06_pval.insert(i, new);
                    }
                }
                Spec::Const => {
                    has_fn = false;
                    if first {
                        ns[i] = true;
                        self.c06_val.insert(i, self.consts[&i].clone());
                    }
                }
                Spec::Fst(p) => {
                    has_fn = false;
                    // a map_ref node stores nothing: it always shows the projection of its
                    // input's latest value; its cutoff only gates propagation
                    let new = self.c06_pval[p].0.clone();
                    if first || ns[*p] {
                        let old = self.c06_val.get(&i).cloned();
                        ns[i] = match &old {
                            None => true,
                            Some(o) => !self.c06_cut(i, o, &new, &mut cut_log, round),
                        };
                    }
                    self.c06_val.insert(i, new);
                }
                Spec::RefIdP(a) => {
                    has_fn = false;
                    // identity map_ref on a pair: shows its input's latest value; default cutoff on the pair gates propagation
                    let new = self.c06_pval[a].clone();
                    if first || ns[*a] {
                        let old = self.c06_pval.get(&i).cloned();
                        ns[i] = match &old {
                            None => true,
                            Some(o) => !exec::decide(F::and(vec![F::eq(&o.0, &new.0), F::eq(&o.1, &new.1)])),
                        };
                    }
                    self.c06_pval.insert(i, new);
                }
                Spec::RefId(a) => {
                    has_fn = false;
                    let new = self.c06_val[a].clone();
                    if first || ns[*a] {
                        let old = self.c06_val.get(&i).cloned();
                        ns[i] = match &old {
                            None => true,
                            Some(o) => !self.c06_cut(i, o, &new, &mut cut_log, round),
                        };
                    }
                    self.c06_val.insert(i, new);
                }
                Spec::Map(_) | Spec::Map2(..) | Spec::Map3(..) | Spec::MapN(_) | Spec::PMap(_) | Spec::MapWithOld(_) | Spec::Fold(_) | Spec::Zip(..) => {
                    let ins = spec.inputs();
                    let run = first || ins.iter().any(|j| ns[*j]);
                    if run {
                        let (calls, new) = match &spec {
                            Spec::PMap(p) => {
                                let a = vec![self.c06_pval[p].0.clone(), self.c06_pval[p].1.clone()];
                                (vec![a.clone()], app(f, &a))
                            }
                            Spec::Fold(v) => {
                                let mut acc = SV::lit(0);
                                let mut calls = vec![];
                                for j in v {
                                    let x = self.c06_val[j].clone();
                                    calls.push(vec![acc.clone(), x.clone()]);
                                    acc = app(f, &[acc, x]);
                                }
                                (calls, acc)
                            }
                            _ => {
                                let a: Vec<SV> = ins.iter().map(|j| self.c06_val[j].clone()).collect();
                                (vec![a.clone()], app(f, &a))
                            }
                        };
                        expect_inv = Some(calls);
                        let old = self.c06_val.get(&i).cloned();
                        ns[i] = match &old {
                            None => true,
                            Some(o) => {
                                if matches!(spec, Spec::MapWithOld(_)) {
                                    !exec::decide(F::eq(o, &new))
                                } else {
                                    !self.c06_cut(i, o, &new, &mut cut_log, round)
                                }
                            }
                        };
                        self.c06_val.insert(i, new);
                    }
                }
                Spec::FoldP(v) => {
                    let run = first || v.iter().any(|j| ns[*j]);
                    if run {
                        let mut acc = SV::lit(0);
                        let mut calls = vec![];
                        for j in v {
                            let x = self.c06_val[j].clone();
                            calls.push(vec![acc.clone(), x.clone()]);
                            acc = app(f, &[acc, x]);
                        }
                        expect_inv = Some(calls);
                        let new: Pair = (acc, SV::lit(0));
                        let old = self.c06_pval.get(&i).cloned();
                        // default (PartialEq) cutoff on the pair accumulator
                        ns[i] = match &old {
                            None => true,
                            Some(o) => !exec::decide(F::and(vec![F::eq(&o.0, &new.0), F::eq(&o.1, &new.1)])),
                        };
                        self.c06_pval.insert(i, new);
                    }
                }
                Spec::DependOn(..) | Spec::Bind { .. } => panic!("symx: C06 reference does not model {kind}"),
            }
            if ns[i] {
                cover("cutoff-did-not-suppress");
            } else if expect_inv.is_some() || (!has_fn && (first || self.written.contains(&i))) {
                cover("cutoff-suppressed");
                if self.nodes[i].cutoff == CutKind::Always {
                    cover("always-cutoff-after-first-result");
                }
            }
            if !has_fn {
                continue;
            }
            let invs: Vec<&Inv> = log.iter().filter(|x| x.key == NodeKey::Main(i)).collect();
            match &expect_inv {
                None => {
                    if !invs.is_empty() {
                        violation(&format!("C06/reinvoked-without-unsuppressed-input/{kind}"), format!("node {i} ({kind}) ran in stabilise #{round} although none of its inputs produced an unsuppressed result"));
                    }
                }
                Some(calls) => {
                    if invs.is_empty() {
                        violation(&format!("C06/change-lost/{kind}"), format!("node {i} ({kind}) did not run in stabilise #{round} although an input produced a result its cutoff did not suppress"));
                    } else if invs.len() != calls.len() {
                        violation(&format!("C06/evaluation-count/{kind}"), format!("node {i} ({kind}) made {} calls in stabilise #{round}, one evaluation is {}", invs.len(), calls.len()));
                    } else {
                        for (inv, exp) in invs.iter().zip(calls) {
                            let conj: Vec<F> = inv.args.iter().zip(exp).map(|(a, e)| F::eq(a, e)).collect();
                            let (a2, e2) = (inv.args.clone(), exp.clone());
                            require(&format!("C06/arguments/{kind}"), F::and(conj), move || format!("node {i} ran on {a2:?}, its inputs hold {e2:?}"));
                        }
                    }
                }
            }
        }
        for inv in cut_log {
            violation("C06/cutoff-function-consulted-unexpectedly", format!("{:?} called with {:?} in stabilise #{round}", inv.key, inv.args));
        }
        self.c06_ns = ns;
        // observers show the engine-view values
        let obs = self.obs.borrow();
        for s in obs.iter() {
            if s.st == OSt::InUse && !s.handles.is_empty() {
                if let (Ok(v), Some(w)) = (&s.handles[0].try_get_value(), self.c06_val.get(&s.node)) {
                    let (v2, w2, node) = (v.clone(), w.clone(), s.node);
                    require("C06/observed-value", F::eq(v, w), move || format!("observer on node {node} returned {v2:?}, the last result of that node is {w2:?}"));
                }
            }
        }
    }

    // ------------------------------------------------------------------ reference evaluator

    /// Pair value of a pair-typed node (pair var or pair fold) from scratch on the current variable values.
    fn pair_now(&self, p: usize, memo: &mut BTreeMap<usize, SV>) -> Pair {
        match &self.nodes[p].spec {
            Spec::FoldP(v) => {
                let f = p as u16;
                let mut acc = SV::lit(0);
                for j in v {
                    acc = app(f, &[acc, self.eval(*j, memo)]);
                }
                (acc, SV::lit(0))
            }
            Spec::RefIdP(a) => self.pair_now(*a, memo),
            _ => self.pvars[&p].1.clone(),
        }
    }

    /// Value of node `i` from scratch on the current variable values.
    pub fn eval(&self, i: usize, memo: &mut BTreeMap<usize, SV>) -> SV {
        if let Some(v) = memo.get(&i) {
            return v.clone();
        }
        let f = i as u16;
        let v = match &self.nodes[i].spec {
            Spec::Var => self.vars.get(&i).map(|e| e.1.clone()).unwrap_or_else(|| self.dropped_model[&i].clone()),
            Spec::PVar => panic!("symx: pair var has no scalar value"),
            Spec::Const => self.consts[&i].clone(),
            Spec::Map(a) | Spec::MapWithOld(a) => app(f, &[self.eval(*a, memo)]),
            Spec::Map2(a, b) | Spec::Zip(a, b) => app(f, &[self.eval(*a, memo), self.eval(*b, memo)]),
            Spec::Map3(a, b, c) => app(f, &[self.eval(*a, memo), self.eval(*b, memo), self.eval(*c, memo)]),
            Spec::MapN(v) => {
                let args: Vec<SV> = v.iter().map(|j| self.eval(*j, memo)).collect();
                app(f, &args)
            }
            Spec::Fold(v) => {
                let mut acc = SV::lit(0);
                for j in v {
                    acc = app(f, &[acc, self.eval(*j, memo)]);
                }
                acc
            }
            Spec::DependOn(a, _) => self.eval(*a, memo),
            Spec::FoldP(_) => panic!("symx: pair fold has no scalar value"),
            Spec::Fst(p) => self.pair_now(*p, memo).0,
            Spec::PMap(p) => {
                let pv = self.pair_now(*p, memo);
                app(f, &[pv.0, pv.1])
            }
            Spec::RefId(a) => self.eval(*a, memo),
            Spec::RefIdP(_) => panic!("symx: pair map_ref has no scalar value"),
            Spec::Bind { lhs, then, els } => {
                let l = self.eval(*lhs, memo);
                let take_then = decide_pred(i as u16, &[l.clone()]);
                let r = if take_then { then } else { els };
                match r {
                    Rhs::Node(j) | Rhs::SideNode(j) => self.eval(*j, memo),
                    Rhs::FreshMap(j) => app(rhs_fn(i, take_then, 0), &[self.eval(*j, memo)]),
                    Rhs::FreshMapCap(j) | Rhs::FreshGarbage(j) => app(rhs_fn(i, take_then, 0), &[l, self.eval(*j, memo)]),
                    Rhs::FreshBind(j, k) => app(rhs_fn(i, take_then, 0), &[l, self.eval(*j, memo), self.eval(*k, memo)]),
                    Rhs::FreshConst => app(rhs_fn(i, take_then, 0), &[l]),
                    Rhs::FreshChain(j) => app(rhs_fn(i, take_then, 1), &[app(rhs_fn(i, take_then, 0), &[self.eval(*j, memo)])]),
                }
            }
        };
        memo.insert(i, v.clone());
        v
    }

    /// Expected argument list of an invocation, from scratch on the current variable values.
    fn expected_args(&self, key: NodeKey, memo: &mut BTreeMap<usize, SV>) -> Option<Vec<Vec<SV>>> {
        match key {
            NodeKey::Main(i) => {
                let f = i as u16;
                Some(match &self.nodes[i].spec {
                    Spec::Map(a) | Spec::MapWithOld(a) => vec![vec![self.eval(*a, memo)]],
                    Spec::Map2(a, b) | Spec::Zip(a, b) => vec![vec![self.eval(*a, memo), self.eval(*b, memo)]],
                    Spec::Map3(a, b, c) => vec![vec![self.eval(*a, memo), self.eval(*b, memo), self.eval(*c, memo)]],
                    Spec::MapN(v) => vec![v.iter().map(|j| self.eval(*j, memo)).collect()],
                    Spec::PMap(p) => {
                        let pv = self.pair_now(*p, memo);
                        vec![vec![pv.0, pv.1]]
                    }
                    Spec::Fold(v) | Spec::FoldP(v) => {
                        let mut out = vec![];
                        let mut acc = SV::lit(0);
                        for j in v {
                            let x = self.eval(*j, memo);
                            out.push(vec![acc.clone(), x.clone()]);
                            acc = app(f, &[acc, x]);
                        }
                        out
                    }
                    _ => return None,
                })
            }
            NodeKey::BindFn(i) => match &self.nodes[i].spec {
                Spec::Bind { lhs, .. } => Some(vec![vec![self.eval(*lhs, memo)]]),
                _ => None,
            },
            NodeKey::Rhs(i, branch, _gen, pos) => match &self.nodes[i].spec {
                Spec::Bind { then, els, .. } => {
                    let r = if branch { then } else { els };
                    match r {
                        Rhs::FreshMap(j) | Rhs::FreshMapCap(j) | Rhs::FreshGarbage(j) | Rhs::SideNode(j) => Some(vec![vec![self.eval(*j, memo)]]),
                        Rhs::FreshBind(j, k) => Some(vec![vec![self.eval(if pos == 9 { *j } else { *k }, memo)]]),
                        Rhs::FreshChain(j) => {
                            if pos == 0 {
                                Some(vec![vec![self.eval(*j, memo)]])
                            } else {
                                Some(vec![vec![app(rhs_fn(i, branch, 0), &[self.eval(*j, memo)])]])
                            }
                        }
                        _ => None,
                    }
                }
                _ => None,
            },
            NodeKey::Cutoff(_) => None,
        }
    }

    /// Dependency cone of the observers given, with bind right-hand sides resolved by `branch`.
    fn cone(&self, roots: &[usize], branch: &dyn Fn(usize) -> Option<bool>) -> BTreeSet<usize> {
        let mut seen = BTreeSet::new();
        let mut stack: Vec<usize> = roots.to_vec();
        while let Some(i) = stack.pop() {
            if !seen.insert(i) {
                continue;
            }
            match &self.nodes[i].spec {
                Spec::Bind { lhs, then, els } => {
                    stack.push(*lhs);
                    if let Some(b) = branch(i) {
                        match if b { then } else { els } {
                            Rhs::Node(j) | Rhs::SideNode(j) | Rhs::FreshMap(j) | Rhs::FreshMapCap(j) | Rhs::FreshChain(j) | Rhs::FreshGarbage(j) => stack.push(*j),
                            Rhs::FreshBind(j, k) => {
                                stack.push(*j);
                                stack.push(*k);
                            }
                            Rhs::FreshConst => {}
                        }
                    }
                }
                s => stack.extend(s.inputs()),
            }
        }
        seen
    }

    // ------------------------------------------------------------------ actions

    pub fn enabled(&self) -> Vec<Action> {
        let o = &self.cfg.ops;
        let obs = self.obs.borrow();
        let mut v = vec![];
        if self.state.is_none() {
            // only handles can still be dropped
            for (k, s) in obs.iter().enumerate() {
                if !s.handles.is_empty() {
                    v.push(Action::DropObs(k));
                }
            }
            for (i, n) in self.nodes.iter().enumerate() {
                if n.handle.is_some() {
                    v.push(Action::DropHandle(i));
                }
            }
            for (i, _) in &self.vars {
                v.push(Action::DropVarHandle(*i));
            }
            return v;
        }
        if o.drop_state {
            v.push(Action::DropState);
        }
        if o.drop_var_handle {
            for (i, _) in &self.vars {
                v.push(Action::DropVarHandle(*i));
            }
        }
        if self.dirty {
            v.push(Action::Stabilise);
        }
        if o.arm_handler_drop_self && !self.armed_drop_once {
            for (k, s) in obs.iter().enumerate() {
                if !s.pinned && !s.handles.is_empty() && s.subs.iter().any(|x| x.active) {
                    v.push(Action::ArmHandlerDropSelf(k));
                }
            }
        }
        if o.arm_handler_subscribe && self.sh.armed_sub.borrow().is_none() && !self.armed_sub_once {
            for (k, s) in obs.iter().enumerate() {
                if s.subs.iter().any(|x| x.active) {
                    for (k2, s2) in obs.iter().enumerate() {
                        if k2 != k && !s2.handles.is_empty() && s2.st != OSt::Dead && s2.subs.len() < self.cfg.max_subs {
                            v.push(Action::ArmHandlerSubscribe(k, k2));
                        }
                    }
                }
            }
        }
        if !self.crash_armed_once {
            for (at, skip) in &o.crash_points {
                let ok = match at {
                    CrashAt::Handler(slot) => obs.get(*slot).map_or(false, |s| s.subs.iter().any(|x| x.active)),
                    _ => true,
                };
                if ok {
                    v.push(Action::ArmPanic(*at, *skip));
                }
            }
        }
        if o.write_kinds {
            for (i, _) in &self.vars {
                if self.var_dropped.contains(i) {
                    continue;
                }
                for k in &o.wkinds_outside {
                    v.push(Action::WriteK(*i, *k));
                }
                if o.drop_var && self.sh.armed.borrow().iter().any(|a| a.var == *i) {
                    v.push(Action::DropVar(*i));
                }
            }
            if self.arms_used < 2 {
                for (i, _) in &self.vars {
                    if self.var_dropped.contains(i) || !o.arm_vars.contains(i) {
                        continue;
                    }
                    for n in &o.arm_nodes {
                        for k in WKINDS {
                            v.push(Action::ArmWrite(*n, *i, k));
                        }
                    }
                    if o.arm_handlers {
                        for (k, s) in obs.iter().enumerate() {
                            if !s.subs.is_empty() && s.subs[0].active {
                                for wk in WKINDS {
                                    v.push(Action::ArmHandlerWrite(k, *i, wk));
                                }
                            }
                        }
                    }
                }
            }
        }
        if o.write {
            for (i, _) in &self.vars {
                if !self.cfg.writable.is_empty() && !self.cfg.writable.contains(i) {
                    continue;
                }
                v.push(Action::Write(*i));
                if o.write_same {
                    v.push(Action::WriteSame(*i));
                }
            }
            for (i, _) in &self.pvars {
                v.push(Action::WriteSnd(*i));
                v.push(Action::WriteBoth(*i));
            }
        }
        for n in &self.cfg.pinned {
            if !obs.iter().any(|s| s.pinned && s.node == *n) && self.s_handle(*n).is_some() {
                v.push(Action::Pin(*n));
            }
        }
        let unpinned = obs.iter().filter(|s| !s.pinned).count();
        let live = obs.iter().filter(|s| !s.pinned && !s.handles.is_empty()).count();
        if o.observe && live < self.cfg.max_obs && unpinned < self.cfg.max_obs + 2 {
            for n in &self.cfg.observable {
                if self.s_handle(*n).is_some() {
                    v.push(Action::Observe(*n));
                }
            }
            let all_pinned = self.cfg.pinned.iter().all(|n| obs.iter().any(|s| s.pinned && s.node == *n));
            if o.observe_smuggled && all_pinned {
                for k in 0..self.sh.smuggled.borrow().len().min(3) {
                    v.push(Action::ObserveSmuggled(k));
                    if o.map_over_smuggled {
                        v.push(Action::ObserveMapOverSmuggled(k));
                    }
                }
            }
        }
        for (k, s) in obs.iter().enumerate() {
            if s.handles.is_empty() || s.pinned {
                continue;
            }
            if o.drop_obs {
                v.push(Action::DropObs(k));
            }
            if o.disallow && s.st != OSt::Dead {
                v.push(Action::Disallow(k));
            }
            if o.clone_obs && s.handles.len() < 2 {
                v.push(Action::CloneObs(k));
            }
        }
        for (k, s) in obs.iter().enumerate() {
            if s.handles.is_empty() {
                if self.cfg.mon.c10 && o.state_unsubscribe && !s.subs.is_empty() && !s.state_unsub_after_gone {
                    v.push(Action::StateUnsubscribe(k, 0));
                }
                continue;
            }
            if o.subscribe && s.subs.len() < self.cfg.max_subs && (s.st != OSt::Dead || self.cfg.mon.c10) && (!o.subscribe_smuggled_only || s.smuggled.is_some()) {
                v.push(Action::Subscribe(k));
            }
            if o.unsubscribe {
                for (j, sub) in s.subs.iter().enumerate() {
                    if sub.active {
                        v.push(Action::Unsubscribe(k, j));
                        if o.state_unsubscribe {
                            v.push(Action::StateUnsubscribe(k, j));
                        }
                    } else if sub.unsubs == 1 && s.st != OSt::Dead {
                        // the same (Copy) token presented a second time to a live observer
                        v.push(Action::Unsubscribe(k, j));
                    } else if self.cfg.mon.c10 && o.state_unsubscribe && s.st == OSt::Dead && j == 0 && !s.state_unsub_after_gone {
                        // the observer is gone: must be a silent no-op
                        v.push(Action::StateUnsubscribe(k, j));
                    }
                }
                if self.cfg.mon.c10 {
                    // a token of another observer, presented to this one
                    for (k2, s2) in obs.iter().enumerate() {
                        if k2 != k && !s2.subs.is_empty() {
                            v.push(Action::UnsubscribeForeign(k, k2));
                            break;
                        }
                    }
                }
            }
        }
        for (k, made) in self.late_made.iter().enumerate() {
            if !*made && self.cfg.late_specs[k].inputs().iter().all(|j| self.nodes.get(*j).map_or(false, |n| n.handle.is_some())) {
                v.push(Action::Make(k));
            }
        }
        if o.drop_handle {
            for (i, n) in self.nodes.iter().enumerate() {
                if n.handle.is_some() && (self.cfg.mon.c12 || !matches!(n.spec, Spec::Var | Spec::PVar)) {
                    v.push(Action::DropHandle(i));
                }
            }
        }
        v
    }

    fn push_observer(&mut self, o: Observer<SV>, node: usize, pinned: bool, smuggled: Option<(usize, bool, u32, u8)>) {
        self.obs.borrow_mut().push(ObsSlot { handles: vec![o], node, st: OSt::Created, last: None, subs: vec![], created_round: self.sh.round.get(), pinned, smuggled, state_unsub_after_gone: false, over: false });
        self.dirty = true;
    }

    pub fn apply(&mut self, a: &Action) {
        op_log(format!("{a:?}"));
        match a {
            Action::Stabilise => self.stabilise(),
            Action::Write(i) | Action::WriteAny(i) => {
                let nv = fresh();
                let e = self.vars.get_mut(i).unwrap();
                e.0.set(nv.clone());
                e.1 = nv;
                self.dirty = true;
                self.written.insert(*i);
            }
            Action::WriteK(i, k) => {
                let (h, cur) = {
                    let e = &self.vars[i];
                    (e.0.clone(), e.1.clone())
                };
                let (saw, fr) = do_write(&h, *k);
                drop(h);
                if let Some(o) = saw {
                    let (o2, c2) = (o.clone(), cur.clone());
                    require("C08/write-saw-wrong-old-value", F::eq(&o, &cur), move || format!("{k:?} on var {i} showed/returned {o2:?}, the variable held {c2:?}"));
                }
                let new = model_write(&cur, *k, &fr);
                let got = self.vars[i].0.get();
                let (g2, n2) = (got.clone(), new.clone());
                require("C08/get-after-write", F::eq(&got, &new), move || format!("get() after {k:?} returned {g2:?}, expected {n2:?}"));
                self.vars.get_mut(i).unwrap().1 = new;
                self.dirty = true;
                self.written.insert(*i);
            }
            Action::ArmWrite(n, i, k) => {
                let h = self.vars[i].0.clone();
                self.sh.armed.borrow_mut().push(Armed { trigger: Trigger::Node(*n), var: *i, kind: *k, handle: h });
                self.arms_used += 1;
                self.dirty = true;
            }
            Action::ArmHandlerWrite(slot, i, k) => {
                let h = self.vars[i].0.clone();
                self.sh.armed.borrow_mut().push(Armed { trigger: Trigger::Handler(*slot), var: *i, kind: *k, handle: h });
                self.arms_used += 1;
                self.dirty = true;
            }
            Action::ArmHandlerDropSelf(k) => {
                self.sh.armed_drop_self.set(Some(*k));
                self.armed_drop_once = true;
                self.dirty = true;
            }
            Action::ArmHandlerSubscribe(from, to) => {
                *self.sh.armed_sub.borrow_mut() = Some((*from, *to));
                self.armed_sub_once = true;
                self.dirty = true;
            }
            Action::ArmPanic(at, skip) => {
                *self.sh.crash.borrow_mut() = Some((*at, *skip));
                self.crash_armed_once = true;
                self.dirty = true;
            }
            Action::DropState => {
                let st = self.state.take();
                drop(st);
                cover("state-dropped-before-handles");
            }
            Action::DropVarHandle(i) => {
                let (v, m) = self.vars.remove(i).unwrap();
                drop(v);
                self.dropped_model.insert(*i, m);
                self.var_dropped.insert(*i);
                self.dirty = true;
            }
            Action::DropVar(i) => {
                // the harness keeps the watch node (Incr) but gives up its Var handle; the only
                // remaining Var handles are the ones held by armed writes
                let (v, m) = self.vars.remove(i).unwrap();
                drop(v);
                self.dropped_model.insert(*i, m);
                self.var_dropped.insert(*i);
                cover("var-handle-dropped-with-write-armed");
                self.dirty = true;
            }
            Action::WriteSame(i) => {
                let e = self.vars.get_mut(i).unwrap();
                e.0.set(e.1.clone());
                self.dirty = true;
                self.written.insert(*i);
                cover("write-same-value-again");
            }
            Action::WriteSnd(i) => {
                let e = self.pvars.get_mut(i).unwrap();
                let nv = (e.1 .0.clone(), fresh());
                e.0.set(nv.clone());
                e.1 = nv;
                self.dirty = true;
                self.written.insert(*i);
                cover("write-second-component-only");
            }
            Action::WriteBoth(i) => {
                let nv = (fresh(), fresh());
                let e = self.pvars.get_mut(i).unwrap();
                e.0.set(nv.clone());
                e.1 = nv;
                self.dirty = true;
                self.written.insert(*i);
            }
            Action::Observe(n) => {
                let h = self.s_handle(*n).unwrap();
                let o = h.observe();
                self.push_observer(o, *n, false, None);
            }
            Action::Pin(n) => {
                let h = self.s_handle(*n).unwrap();
                let o = h.observe();
                self.push_observer(o, *n, true, None);
            }
            Action::ObserveSmuggled(k) => {
                let (b, br, g, pos, h) = self.sh.smuggled.borrow()[*k].clone();
                let o = h.observe();
                cover("observer-on-scope-created-node");
                self.push_observer(o, b, false, Some((b, br, g, pos)));
            }
            Action::ObserveMapOverSmuggled(k) => {
                let (b, br, g, pos, h) = self.sh.smuggled.borrow()[*k].clone();
                let m = h.map(|x| app(FN_OVER, &[x.clone()]));
                let o = m.observe();
                self.over_nodes.push(m);
                cover("map-built-over-scope-created-node");
                self.push_observer(o, b, false, Some((b, br, g, pos)));
                self.obs.borrow_mut().last_mut().unwrap().over = true;
            }
            Action::DropObs(k) => {
                let mut obs = self.obs.borrow_mut();
                let s = &mut obs[*k];
                let h = s.handles.pop();
                if s.handles.is_empty() {
                    s.st = OSt::Dead;
                    for sub in s.subs.iter_mut() {
                        sub.active = false;
                    }
                }
                drop(obs);
                drop(h);
                self.dirty = true;
            }
            Action::Disallow(k) => {
                let h = self.obs.borrow()[*k].handles[0].clone();
                h.disallow_future_use();
                drop(h);
                let mut obs = self.obs.borrow_mut();
                let s = &mut obs[*k];
                s.st = OSt::Dead;
                for sub in s.subs.iter_mut() {
                    sub.active = false;
                }
                self.dirty = true;
            }
            Action::CloneObs(k) => {
                let mut obs = self.obs.borrow_mut();
                let c = obs[*k].handles[0].clone();
                obs[*k].handles.push(c);
                cover("observer-cloned");
            }
            Action::Subscribe(k) => {
                let (h, st, j) = {
                    let obs = self.obs.borrow();
                    (obs[*k].handles[0].clone(), obs[*k].st, obs[*k].subs.len())
                };
                let sh = self.sh.clone();
                let weak_obs = Rc::downgrade(&self.obs);
                let slot = *k;
                let r = h.try_subscribe(move |u: Update<&SV>| {
                    let read = weak_obs.upgrade().and_then(|o| o.try_borrow().ok().and_then(|o| o[slot].handles.first().map(|h| h.try_get_value())));
                    let reads_all: Vec<(usize, Result<SV, ObserverError>)> = weak_obs.upgrade().and_then(|o| o.try_borrow().ok().map(|o| o.iter().enumerate().filter_map(|(i, s)| s.handles.first().map(|h| (i, h.try_get_value()))).collect())).unwrap_or_default();
                    sh.updates.borrow_mut().push(UpdLog { round: sh.round.get(), during_stabilise_call: sh.in_stabilise.get(), slot, sub: j, upd: u.cloned(), read, reads_all });
                    sh.fire(Trigger::Handler(slot), true);
                    if sh.armed_drop_self.get() == Some(slot) {
                        sh.armed_drop_self.set(None);
                        if let Some(o) = weak_obs.upgrade() {
                            // a one-shot observer: its last handle is dropped from inside its own callback
                            let hs: Vec<Observer<SV>> = o.borrow_mut()[slot].handles.drain(..).collect();
                            drop(hs);
                            let mut ob = o.borrow_mut();
                            ob[slot].st = OSt::Dead;
                            for sub in ob[slot].subs.iter_mut() {
                                sub.active = false;
                            }
                            cover("observer-dropped-inside-its-own-callback");
                            sh.dropped_self_in.set(Some((slot, sh.round.get())));
                        }
                    }
                    let arm = {
                        let mut a = sh.armed_sub.borrow_mut();
                        if a.map_or(false, |(from, _)| from == slot) { a.take() } else { None }
                    };
                    if let (Some((_, target)), Some(o)) = (arm, weak_obs.upgrade()) {
                        // subscribe on another observer from inside this handler
                        let h = o.borrow()[target].handles.first().cloned();
                        if let Some(h) = h {
                            let nsub = o.borrow()[target].subs.len();
                            let (sh3, wo3) = (sh.clone(), weak_obs.clone());
                            let r = h.try_subscribe(move |u: Update<&SV>| {
                                let read = wo3.upgrade().and_then(|o| o.try_borrow().ok().and_then(|o| o[target].handles.first().map(|h| h.try_get_value())));
                                sh3.updates.borrow_mut().push(UpdLog { round: sh3.round.get(), during_stabilise_call: sh3.in_stabilise.get(), slot: target, sub: nsub, upd: u.cloned(), read, reads_all: vec![] });
                            });
                            drop(h);
                            if let Ok(token) = r {
                                cover("subscription-made-inside-a-handler");
                                o.borrow_mut()[target].subs.push(SubSlot { token, active: true, unsubs: 0, made_round: sh.round.get(), delivered: 0, got_invalidated: false, made_in_handler_of_round: Some(sh.round.get()) });
                            }
                        }
                    }
                    sh.maybe_crash(CrashAt::Handler(slot));
                });
                drop(h);
                match (st, r) {
                    (OSt::Dead, Err(ObserverError::Disallowed)) => cover("subscribe-on-dead-observer-rejected"),
                    (OSt::Dead, r) => violation("C10/subscribe-on-dead-observer", format!("subscribe on a disallowed observer returned {:?}", r.map(|_| "Ok(token)"))),
                    (_, Ok(token)) => {
                        let mut obs = self.obs.borrow_mut();
                        if obs[*k].st == OSt::InUse && obs.iter().filter(|s| s.node == obs[*k].node && s.st == OSt::InUse).any(|s| s.subs.iter().any(|x| x.active)) {
                            cover("second-subscription-on-subscribed-node");
                        }
                        obs[*k].subs.push(SubSlot { token, active: true, unsubs: 0, made_round: self.sh.round.get(), delivered: 0, got_invalidated: false, made_in_handler_of_round: None });
                        self.dirty = true;
                    }
                    (_, Err(e)) => violation("C10/subscribe-rejected", format!("subscribe on a live observer returned Err({e:?})")),
                }
            }
            Action::Unsubscribe(k, j) => {
                let (h, tok) = {
                    let obs = self.obs.borrow();
                    (obs[*k].handles[0].clone(), obs[*k].subs[*j].token)
                };
                let again = self.obs.borrow()[*k].subs[*j].unsubs > 0;
                let r = h.unsubscribe(tok);
                drop(h);
                if again {
                    cover("unsubscribe-same-token-twice");
                } else if r != Ok(()) {
                    violation("C10/unsubscribe-own-token-rejected", format!("unsubscribe with the observer's own token returned {r:?}"));
                }
                self.obs.borrow_mut()[*k].subs[*j].unsubs += 1;
                self.obs.borrow_mut()[*k].subs[*j].active = false;
                self.dirty = true;
            }
            Action::UnsubscribeForeign(k, k2) => {
                let (h, tok) = {
                    let obs = self.obs.borrow();
                    (obs[*k].handles[0].clone(), obs[*k2].subs[0].token)
                };
                let r = h.unsubscribe(tok);
                drop(h);
                cover("foreign-token-unsubscribe");
                if r != Err(ObserverError::Mismatch) {
                    violation("C10/foreign-token-accepted", format!("unsubscribe with another observer's token returned {r:?}"));
                }
            }
            Action::StateUnsubscribe(k, j) => {
                let (tok, st) = {
                    let obs = self.obs.borrow();
                    (obs[*k].subs[*j].token, obs[*k].st)
                };
                self.state.as_ref().unwrap().unsubscribe(tok);
                if st == OSt::Dead {
                    cover("state-unsubscribe-after-observer-gone");
                    self.obs.borrow_mut()[*k].state_unsub_after_gone = true;
                }
                self.obs.borrow_mut()[*k].subs[*j].unsubs += 1;
                self.obs.borrow_mut()[*k].subs[*j].active = false;
                self.dirty = true;
            }
            Action::Make(k) => {
                let spec = self.cfg.late_specs[*k].clone();
                self.build(spec);
                self.late_made[*k] = true;
            }
            Action::DropHandle(i) => {
                self.nodes[*i].handle = None;
            }
            other => panic!("symx: action {other:?} not supported by this world"),
        }
        if !matches!(a, Action::Stabilise) {
            self.after_op();
        }
    }

    fn live_roots(&self) -> Vec<usize> {
        self.obs.borrow().iter().filter(|s| s.st != OSt::Dead).map(|s| s.node).collect()
    }

    fn audit(&self, after_stabilise: bool) {
        if !self.cfg.mon.c11 {
            return;
        }
        let lines = self.state.as_ref().unwrap().verif_audit(after_stabilise);
        if let Some(first) = lines.first() {
            let cat: String = first.chars().map(|c| if c.is_ascii_digit() { '#' } else { c }).collect();
            let mut cat2 = String::new();
            for ch in cat.chars() {
                if ch == '#' && cat2.ends_with('#') {
                    continue;
                }
                cat2.push(ch);
            }
            let cat = cat2;
            let cat: String = cat.chars().take(70).collect();
            violation(&format!("C11/{cat}"), lines.join(" | "));
        }
    }

    /// value of the scope-created node (bind, branch, gen, pos), from scratch
    fn eval_smuggled(&self, b: usize, branch: bool, pos: u8, memo: &mut BTreeMap<usize, SV>) -> Option<SV> {
        let Spec::Bind { lhs, then, els } = &self.nodes[b].spec else { return None };
        let l = self.eval(*lhs, memo);
        Some(match if branch { then } else { els } {
            Rhs::FreshMap(j) => app(rhs_fn(b, branch, 0), &[self.eval(*j, memo)]),
            Rhs::FreshMapCap(j) | Rhs::FreshGarbage(j) | Rhs::SideNode(j) => app(rhs_fn(b, branch, 0), &[l, self.eval(*j, memo)]),
            Rhs::FreshBind(j, k) => app(rhs_fn(b, branch, 0), &[l, self.eval(*j, memo), self.eval(*k, memo)]),
            Rhs::FreshChain(j) => {
                let a0 = app(rhs_fn(b, branch, 0), &[self.eval(*j, memo)]);
                if pos == 0 {
                    a0
                } else {
                    app(rhs_fn(b, branch, 1), &[a0])
                }
            }
            _ => return None,
        })
    }

    pub fn stabilise(&mut self) {
        self.sh.round.set(self.sh.round.get() + 1);
        let round = self.sh.round.get();
        let pfx = if self.cfg.mon.c09 { "C09" } else { "C03" };
        let log_start = self.sh.log.borrow().len();
        let upd_start = self.sh.updates.borrow().len();
        // cone as it stands when stabilise is called: bind edges = what each closure last returned
        let roots = self.live_roots();
        let lb = self.sh.last_branch.borrow().clone();
        let cone_start = self.cone(&roots, &|b| lb.get(&b).copied());
        if self.cfg.mon.c06g {
            self.g_cones.insert(round, cone_start.clone());
        }
        let recomputed_before = self.state.as_ref().unwrap().stats().recomputed;
        self.sh.in_stabilise.set(true);
        if self.cfg.mon.c13 {
            let st = self.state.clone().unwrap();
            let r = catch(move || st.stabilise());
            self.sh.in_stabilise.set(false);
            if let Err(msg) = r {
                if !msg.contains("injected crash") {
                    panic!("{}", msg);
                }
                self.after_crash(round, log_start);
                return;
            }
        } else {
            self.state.as_ref().unwrap().stabilise();
        }
        self.sh.in_stabilise.set(false);
        self.dirty = false;
        self.stabilised_once = true;
        for s in self.obs.borrow_mut().iter_mut() {
            if s.st == OSt::Created {
                s.st = OSt::InUse;
            }
        }
        if self.cfg.mon.c06 {
            let log: Vec<Inv> = self.sh.log.borrow()[log_start..].to_vec();
            self.c06_after_stabilise(round, &log);
        }
        let mut memo = BTreeMap::new();
        let gens = self.sh.gens.borrow().clone();
        let n_slots = self.obs.borrow().len();
        let updates: Vec<UpdLog> = self.sh.updates.borrow()[upd_start..].to_vec();
        for k in 0..n_slots {
            let (st, node, smuggled, prev, over) = {
                let o = self.obs.borrow();
                (o[k].st, o[k].node, o[k].smuggled, o[k].last.clone(), o[k].over)
            };
            if st != OSt::InUse {
                continue;
            }
            let got = self.obs.borrow()[k].handles[0].try_get_value();
            // what the reference says about this observer
            let invalid = smuggled.map_or(false, |(b, _, g, _)| cur_gen(&gens, b) > g);
            let want: Option<SV> = if invalid {
                None
            } else if let Some((b, br, _, pos)) = smuggled {
                let v = self.eval_smuggled(b, br, pos, &mut memo);
                if over {
                    v.map(|x| app(FN_OVER, &[x]))
                } else {
                    v
                }
            } else if self.cfg.mon.c06 && self.cfg.mon.c09 {
                // worlds with arbitrary cutoffs: the value is the one of the cutoff-aware model
                self.c06_val.get(&node).cloned()
            } else if self.cfg.mon.c01 || self.cfg.mon.c09 || self.cfg.mon.c03 {
                Some(self.eval(node, &mut memo))
            } else {
                None
            };
            if self.cfg.mon.c10 {
                if let Err(e) = &got {
                    if *e != ObserverError::ObservingInvalid {
                        violation("C10/observer-unusable-after-its-first-stabilise", format!("observer slot {k} was created before stabilise #{round} and is still held, but returns Err({e:?}) after it"));
                    }
                }
            }
            let kind = if smuggled.is_some() { "ScopeNode" } else { self.nodes[node].spec.kind_name() };
            if self.cfg.mon.c01 && smuggled.is_none() {
                match (&got, &want) {
                    (Ok(v), Some(want)) => {
                        let (v2, w2) = (v.clone(), want.clone());
                        require(&format!("C01/stale-value/{kind}"), F::eq(v, want), move || format!("observer on node {node} ({kind}) returned {v2:?}, from-scratch evaluation is {w2:?}"));
                    }
                    (Err(e), _) => violation(&format!("C01/observer-error/{kind}"), format!("observer on valid node {node} ({kind}) returned Err({e:?}) after stabilise")),
                    _ => {}
                }
            }
            if self.cfg.mon.c03 && smuggled.is_some() {
                if invalid {
                    cover("observer-on-invalidated-scope-node");
                    if got != Err(ObserverError::ObservingInvalid) {
                        violation("C03/stale-scope-node-still-valid", format!("observer on a node created by an earlier run of bind {node}'s closure returned {got:?} after the closure re-ran"));
                    }
                } else {
                    match (&got, &want) {
                        (Ok(v), Some(want)) => {
                            let (v2, w2) = (v.clone(), want.clone());
                            require("C03/scope-node-value", F::eq(v, want), move || format!("observer on current scope-created node returned {v2:?}, expected {w2:?}"));
                        }
                        (Err(e), _) => violation("C03/current-scope-node-invalid", format!("observer on a node of the current run of bind {node}'s closure returned Err({e:?})")),
                        _ => {}
                    }
                }
            }
            if self.cfg.mon.c09 || (self.cfg.mon.c03 && smuggled.is_some()) {
                let n_subs = self.obs.borrow()[k].subs.len();
                for j in 0..n_subs {
                    let (active, delivered, got_inv) = {
                        let o = self.obs.borrow();
                        (o[k].subs[j].active, o[k].subs[j].delivered, o[k].subs[j].got_invalidated)
                    };
                    let evs: Vec<&UpdLog> = updates.iter().filter(|u| u.slot == k && u.sub == j).collect();
                    #[derive(Debug)]
                    enum Exp {
                        None,
                        Init(SV),
                        Changed(SV),
                        Invalidated,
                    }
                    let made_now = self.obs.borrow()[k].subs[j].made_in_handler_of_round == Some(round);
                    let exp = if !active || got_inv || made_now {
                        Exp::None
                    } else if invalid {
                        Exp::Invalidated
                    } else if delivered == 0 {
                        Exp::Init(want.clone().unwrap())
                    } else {
                        let cur = want.clone().unwrap();
                        if self.cfg.mon.c06 {
                            // "changed as judged by its cutoff"
                            cover(if self.c06_ns[node] { "subscribed-node-not-cut-off" } else { "subscribed-node-cut-off-or-idle" });
                        }
                        match &prev {
                            _ if self.cfg.mon.c06 => {
                                if self.c06_ns[node] {
                                    Exp::Changed(cur)
                                } else {
                                    Exp::None
                                }
                            }
                            Some(Ok(p)) => {
                                if exec::decide(F::eq(p, &cur)) {
                                    Exp::None
                                } else {
                                    Exp::Changed(cur)
                                }
                            }
                            _ => Exp::Changed(cur),
                        }
                    };
                    let what = |e: &UpdLog| match &e.upd {
                        Update::Initialised(_) => "Initialised",
                        Update::Changed(_) => "Changed",
                        Update::Invalidated => "Invalidated",
                    };
                    match (&exp, evs.as_slice()) {
                        (Exp::None, []) => {}
                        (Exp::None, [e, ..]) => {
                            let why = if !active { "after-unsubscribe-or-observer-end" } else if got_inv { "after-Invalidated" } else { "value-unchanged" };
                            violation(&format!("{pfx}/unexpected-{}/{why}", what(e)), format!("subscription {j} of observer slot {k} on node {node} got {:?} in stabilise #{round} ({why})", e.upd));
                        }
                        (_, []) => violation(&format!("{pfx}/missing-notification/{}", format!("{exp:?}").split('(').next().unwrap()), format!("subscription {j} of observer slot {k} on node {node}: expected {exp:?} in stabilise #{round}, got nothing")),
                        (_, [_, _, ..]) => violation(&format!("{pfx}/notified-twice"), format!("subscription {j} of observer slot {k} got {} notifications in stabilise #{round}", evs.len())),
                        (Exp::Invalidated, [e]) => {
                            if !matches!(e.upd, Update::Invalidated) {
                                violation(&format!("{pfx}/wrong-kind/expected-Invalidated"), format!("got {:?}", e.upd));
                            }
                            self.obs.borrow_mut()[k].subs[j].got_invalidated = true;
                        }
                        (Exp::Init(v), [e]) | (Exp::Changed(v), [e]) => {
                            let is_init = matches!(exp, Exp::Init(_));
                            match (&e.upd, is_init) {
                                (Update::Initialised(d), true) | (Update::Changed(d), false) => {
                                    let (d2, v2) = (d.clone(), v.clone());
                                    require(&format!("{pfx}/delivered-value"), F::eq(d, v), move || format!("subscription delivered {d2:?}, from-scratch value is {v2:?}"));
                                    match &e.read {
                                        Some(Ok(r)) => {
                                            let (d2, r2) = (d.clone(), r.clone());
                                            require(&format!("{pfx}/delivered-differs-from-observer"), F::eq(d, r), move || format!("subscription delivered {d2:?} while the observer returned {r2:?}"));
                                        }
                                        other => violation(&format!("{pfx}/observer-unreadable-in-callback"), format!("observer read inside its callback returned {other:?}")),
                                    }
                                }
                                (u, _) => violation(&format!("{pfx}/wrong-kind/{}-instead-of-{}", what(e), if is_init { "Initialised" } else { "Changed" }), format!("subscription {j} of slot {k} on node {node} got {u:?} in stabilise #{round}")),
                            }
                            self.obs.borrow_mut()[k].subs[j].delivered += 1;
                        }
                    }
                    for e in &evs {
                        if !e.during_stabilise_call {
                            violation(&format!("{pfx}/callback-outside-stabilise"), format!("{:?}", e.upd));
                        }
                    }
                }
            }
            self.obs.borrow_mut()[k].last = Some(got);
        }
        if self.cfg.mon.c07 {
            // reads issued from inside update handlers show the fully propagated snapshot
            for u in &updates {
                for (k, r) in &u.reads_all {
                    let (st, node, smug) = {
                        let o = self.obs.borrow();
                        (o[*k].st, o[*k].node, o[*k].smuggled)
                    };
                    if st != OSt::InUse || smug.is_some() {
                        continue;
                    }
                    if let Ok(v) = r {
                        cover("observer-read-inside-update-handler");
                        let want = self.eval(node, &mut memo);
                        let (v2, w2, kk) = (v.clone(), want.clone(), *k);
                        require("C07/handler-saw-partial-snapshot", F::eq(v, &want), move || format!("observer slot {kk} read from inside an update handler returned {v2:?}; the propagated value is {w2:?}"));
                    }
                }
            }
        }
        if self.cfg.mon.c09 {
            // callbacks for observers that are not in use (dead, or never promoted)
            for u in &updates {
                let st = self.obs.borrow()[u.slot].st;
                if st != OSt::InUse && self.sh.dropped_self_in.get() != Some((u.slot, round)) {
                    violation(&format!("{pfx}/unexpected-callback/observer-not-in-use"), format!("slot {} ({st:?}) got {:?} in stabilise #{round}", u.slot, u.upd));
                }
            }
        }
        let log: Vec<Inv> = self.sh.log.borrow()[log_start..].to_vec();
        if self.cfg.mon.c03 {
            let gen_lhs = self.sh.gen_lhs.borrow().clone();
            for inv in &log {
                if let NodeKey::Rhs(b, _, g, _) = inv.key {
                    let Spec::Bind { lhs, .. } = &self.nodes[b].spec else { continue };
                    let cur = self.eval(*lhs, &mut memo);
                    if let Some(cap) = gen_lhs.get(&(b, g)) {
                        let (c2, k2) = (cap.clone(), cur.clone());
                        cover("scope-created-node-ran");
                        require("C03/stale-closure-ran", F::eq(cap, &cur), move || format!("a node created by the closure of bind {b} for lhs = {c2:?} ran in stabilise #{round}, in which the lhs is {k2:?}"));
                        if let (Some(icap), Spec::Bind { then, els, .. }) = (self.sh.gen_lhs2.borrow().get(&(b, g)).cloned(), &self.nodes[b].spec) {
                            for r in [then, els] {
                                if let Rhs::FreshBind(j, _) = r {
                                    let icur = self.eval(*j, &mut memo);
                                    let (c2, k2) = (icap.clone(), icur.clone());
                                    require("C03/stale-closure-ran", F::eq(&icap, &icur), move || format!("a node created by a bind built inside bind {b}'s closure for inner lhs = {c2:?} ran in stabilise #{round}, in which that lhs is {k2:?}"));
                                }
                            }
                        }
                    }
                }
            }
        }
        if self.cfg.mon.c02 {
            // at most one evaluation per node per stabilise, on final inputs
            let mut by_key: BTreeMap<NodeKey, Vec<&Inv>> = BTreeMap::new();
            for inv in &log {
                by_key.entry(inv.key).or_default().push(inv);
            }
            for (key, invs) in by_key {
                if matches!(key, NodeKey::Cutoff(_)) {
                    continue;
                }
                let Some(expect) = self.expected_args(key, &mut memo) else { continue };
                let role = self.role_name(key);
                if invs.len() > expect.len() {
                    violation(&format!("C02/evaluated-twice/{role}"), format!("{key:?} invoked {} times in stabilise #{round} (one evaluation = {} calls)", invs.len(), expect.len()));
                    continue;
                }
                if invs.len() < expect.len() {
                    violation(&format!("C02/partial-pass/{role}"), format!("{key:?} invoked {} times, a full pass is {}", invs.len(), expect.len()));
                    continue;
                }
                for (inv, exp) in invs.iter().zip(expect.iter()) {
                    let mut conj = vec![];
                    for (a, e) in inv.args.iter().zip(exp.iter()) {
                        conj.push(F::eq(a, e));
                    }
                    let (a2, e2) = (inv.args.clone(), exp.clone());
                    require(&format!("C02/transient-input/{role}"), F::and(conj), move || format!("{key:?} ran in stabilise #{round} on {a2:?}; its inputs end the stabilise at {e2:?}"));
                }
            }
        }
        if self.cfg.mon.c05 {
            // observers alive for the calls of this stabilise: those alive when it was called (an observer
            // may end during it, e.g. dropped from inside its own callback) and those alive at its end
            let roots_end = self.live_roots();
            let mut roots_both = roots.clone();
            roots_both.extend(roots_end.iter().copied());
            let lb = self.sh.last_branch.borrow().clone();
            let cone_end = self.cone(&roots_both, &|b| lb.get(&b).copied());
            if roots.is_empty() && roots_end.is_empty() {
                cover("stabilise-with-no-live-observer");
                if !log.is_empty() || self.state.as_ref().unwrap().stats().recomputed != recomputed_before {
                    violation("C05/work-without-observer", format!("stabilise #{round} with no live observer invoked {} functions, recomputed {}", log.len(), self.state.as_ref().unwrap().stats().recomputed - recomputed_before));
                }
            }
            for inv in &log {
                let n = match inv.key {
                    NodeKey::Main(i) | NodeKey::BindFn(i) | NodeKey::Rhs(i, ..) | NodeKey::Cutoff(i) => i,
                };
                if !cone_start.contains(&n) && !cone_end.contains(&n) {
                    let role = self.role_name(inv.key);
                    violation(&format!("C05/unneeded-node-computed/{role}"), format!("{:?} ran in stabilise #{round} but is in no live observer's cone (start {:?}, end {:?})", inv.key, cone_start, cone_end));
                }
            }
        }
        if self.cfg.mon.c06g {
            self.c06_gating(round, &log);
        }
        self.written.clear();
        if self.cfg.mon.c08 {
            self.c08_after_stabilise(round);
        }
        if self.cfg.mon.c12 && self.sh.dropped_self_in.get().map_or(true, |(_, r)| r != round) {
            // (an observer dropped from inside its own callback is unlinked by the next stabilise)
            cover("leak-check-after-stabilise");
            self.leak_check(&format!("after stabilise #{round}"));
        }
        self.audit(true);
    }

    pub fn role_name(&self, key: NodeKey) -> String {
        match key {
            NodeKey::Main(i) => self.nodes[i].spec.kind_name().to_string(),
            NodeKey::BindFn(_) => "BindFn".into(),
            NodeKey::Rhs(..) => "BindRhsNode".into(),
            NodeKey::Cutoff(_) => "Cutoff".into(),
        }
    }

    /// Reads issued between actions (C07), result kinds (C10), audit (C11).
    fn after_op(&mut self) {
        if self.state.is_none() {
            return;
        }
        if self.cfg.mon.c07 || self.cfg.mon.c10 {
            let obs = self.obs.borrow();
            for (k, s) in obs.iter().enumerate() {
                for (hi, h) in s.handles.iter().enumerate() {
                    let got = h.try_get_value();
                    match s.st {
                        OSt::Created => {
                            if got != Err(ObserverError::NeverStabilised) {
                                violation("C07/new-observer-has-value", format!("observer slot {k} (handle {hi}) created after the last stabilise returned {got:?}"));
                            }
                        }
                        OSt::InUse => match (&got, s.last.as_ref().unwrap()) {
                            (Ok(v), Ok(l)) => {
                                let (v2, l2) = (v.clone(), l.clone());
                                require("C07/value-moved-between-stabilises", F::eq(v, l), move || format!("observer slot {k} returned {v2:?}; at the end of the last stabilise it returned {l2:?}"));
                            }
                            (Err(a), Err(b)) if a == b => {}
                            (g, l) => violation("C07/result-kind-moved-between-stabilises", format!("observer slot {k}: {g:?} vs {l:?} at end of last stabilise")),
                        },
                        OSt::Dead => {
                            if got != Err(ObserverError::Disallowed) {
                                violation("C10/dead-observer-readable", format!("observer slot {k} (handle {hi}) is disallowed but returned {got:?}"));
                            }
                        }
                    }
                }
            }
        }
        if self.cfg.mon.c09 {
            // callbacks never run outside stabilise
            let ups = self.sh.updates.borrow();
            if let Some(u) = ups.iter().find(|u| !u.during_stabilise_call) {
                violation("C09/callback-outside-stabilise", format!("{:?}", u.upd));
            }
        }
        self.audit(false);
    }

    pub fn finish(&mut self) {
        if self.poisoned || self.state.is_none() {
            return;
        }
        if self.dirty {
            op_log("Stabilise".into());
            self.stabilise();
        }
        if self.cfg.mon.c08 {
            // `while !is_stable() { stabilise() }` must end, with values consistent with the variables
            let mut n = 0;
            while !self.state.as_ref().unwrap().is_stable() {
                n += 1;
                if n > 4 {
                    violation("C08/fixed-point-loop-does-not-end", "is_stable() still false after 4 further stabilises with no write armed".into());
                    break;
                }
                op_log("Stabilise".into());
                self.stabilise();
            }
        }
    }
}

fn make_rhs(sh: &Rc<Shared>, ws: &WeakState, bind: usize, branch: bool, gen: u32, r: &Rhs, h: Option<&Incr<SV>>, h2: Option<&Incr<SV>>, lhs: &SV) -> Incr<SV> {
    let g0 = rhs_fn(bind, branch, 0);
    let g1 = rhs_fn(bind, branch, 1);
    if sh.scope_call.get() {
        // something unrelated built in the top scope from inside the closure (what weak_memoize_fn does on a
        // cache miss): everything the closure builds afterwards still belongs to the bind
        let top = sh.top_scope.borrow().clone().unwrap();
        ws.within_scope(top, || drop(ws.constant(SV::lit(0))));
        cover("within_scope-call-inside-bind-closure");
    }
    let g0_guard = sh.new_guard(GuardOwner::Rhs(bind, gen));
    if matches!(r, Rhs::Node(_) | Rhs::FreshConst | Rhs::FreshBind(..)) {
        // no closure is built for this right-hand side
        sh.guards.borrow_mut().pop();
    }
    match r {
        Rhs::Node(_) => h.unwrap().clone(),
        Rhs::FreshMap(_) => {
            let sh2 = sh.clone();
            let n = h.unwrap().map(move |y| {
                let _ = &g0_guard;
                sh2.invoke(NodeKey::Rhs(bind, branch, gen, 0), vec![y.clone()]);
                app(g0, &[y.clone()])
            });
            if sh.smuggle.get() { sh.smuggled.borrow_mut().push((bind, branch, gen, 0, n.clone())); }
            n
        }
        Rhs::FreshBind(..) => {
            let sh2 = sh.clone();
            let outer = lhs.clone();
            let over = h2.unwrap().clone();
            drop(g0_guard);
            h.unwrap().bind(move |iv: &SV| {
                // the closure of the bind built inside the outer closure
                sh2.invoke(NodeKey::Rhs(bind, branch, gen, 9), vec![iv.clone()]);
                let igen = {
                    let mut g = sh2.gens.borrow_mut();
                    let e = g.entry(100 + bind).or_insert(0);
                    *e += 1;
                    *e
                };
                let cgen = gen + igen;
                sh2.gen_lhs.borrow_mut().insert((bind, cgen), outer.clone());
                sh2.gen_lhs2.borrow_mut().insert((bind, cgen), iv.clone());
                let guard = sh2.new_guard(GuardOwner::Rhs(bind, cgen));
                let (sh3, o2, i2) = (sh2.clone(), outer.clone(), iv.clone());
                let m = over.map(move |xv| {
                    let _ = &guard;
                    sh3.invoke(NodeKey::Rhs(bind, branch, cgen, 0), vec![xv.clone()]);
                    app(g0, &[o2.clone(), i2.clone(), xv.clone()])
                });
                if sh2.smuggle.get() {
                    sh2.smuggled.borrow_mut().push((bind, branch, cgen, 0, m.clone()));
                }
                m
            })
        }
        Rhs::FreshGarbage(_) => {
            let sh2 = sh.clone();
            let tmp = h.unwrap().map(|y: &SV| y.clone());
            drop(tmp);
            cover("node-created-and-dropped-inside-bind-closure");
            let cap = lhs.clone();
            let n = h.unwrap().map(move |y| {
                let _ = &g0_guard;
                sh2.invoke(NodeKey::Rhs(bind, branch, gen, 0), vec![y.clone()]);
                app(g0, &[cap.clone(), y.clone()])
            });
            if sh.smuggle.get() { sh.smuggled.borrow_mut().push((bind, branch, gen, 0, n.clone())); }
            n
        }
        Rhs::SideNode(_) => {
            let sh2 = sh.clone();
            let cap = lhs.clone();
            let n = h.unwrap().map(move |y| {
                let _ = &g0_guard;
                sh2.invoke(NodeKey::Rhs(bind, branch, gen, 0), vec![y.clone()]);
                app(g0, &[cap.clone(), y.clone()])
            });
            // the node escapes whether or not the history observes it (dropped with the world otherwise)
            sh.smuggled.borrow_mut().push((bind, branch, gen, 0, n));
            cover("closure-returns-outer-node-and-builds-side-node");
            h.unwrap().clone()
        }
        Rhs::FreshMapCap(_) => {
            let sh2 = sh.clone();
            let cap = lhs.clone();
            let n = h.unwrap().map(move |y| {
                let _ = &g0_guard;
                sh2.invoke(NodeKey::Rhs(bind, branch, gen, 0), vec![y.clone()]);
                app(g0, &[cap.clone(), y.clone()])
            });
            if sh.smuggle.get() { sh.smuggled.borrow_mut().push((bind, branch, gen, 0, n.clone())); }
            n
        }
        Rhs::FreshConst => ws.constant(app(g0, &[lhs.clone()])),
        Rhs::FreshChain(_) => {
            let sh2 = sh.clone();
            let sh3 = sh.clone();
            let n0 = h.unwrap().map(move |y| {
                let _ = &g0_guard;
                sh2.invoke(NodeKey::Rhs(bind, branch, gen, 0), vec![y.clone()]);
                app(g0, &[y.clone()])
            });
            let n1 = n0.map(move |y| {
                sh3.invoke(NodeKey::Rhs(bind, branch, gen, 1), vec![y.clone()]);
                app(g1, &[y.clone()])
            });
            if sh.smuggle.get() { sh.smuggled.borrow_mut().push((bind, branch, gen, 0, n0)); }
            if sh.smuggle.get() { sh.smuggled.borrow_mut().push((bind, branch, gen, 1, n1.clone())); }
            n1
        }
    }
}

/// One path of a world scenario: build, `len` symbolic actions, closing stabilise, drop.
pub fn run_world(cfg: &WorldCfg) {
    let mut w = ManuallyDrop::new(World::new(cfg));
    let r = catch(|| {
        let mut skipped = false;
        for a in &cfg.warm {
            // (a warm action that is not enabled on this path, e.g. no closure-built node exists, is skipped)
            if matches!(a, Action::WriteAny(_)) || w.enabled().contains(a) {
                w.apply(a);
            } else {
                cover("warm-action-skipped");
                skipped = true;
            }
        }
        if !cfg.warm.is_empty() && !skipped {
            cover("warm-start-complete");
        }
        for _ in 0..cfg.len {
            if w.poisoned {
                break;
            }
            let acts = w.enabled();
            if acts.is_empty() {
                break;
            }
            let k = choose(acts.len());
            w.apply(&acts[k]);
        }
        w.finish();
    });
    match r {
        Ok(()) => {
            if cfg.mon.c12 || cfg.mon.c13 || cfg.mon.c04 {
                exec::mark_inflight(&cfg.name);
            }
            let r2 = catch(move || {
                let mut w = ManuallyDrop::into_inner(w);
                if w.cfg.mon.c12 {
                    w.drop_all_handles();
                    w.leak_check("after every handle and the state were dropped");
                }
                drop(w)
            });
            if let Err(msg) = r2 {
                if cfg.mon.c13 {
                    violation("C13/panic-while-dropping-handles-and-state", msg.clone());
                }
                if cfg.mon.c04 {
                    violation("C04/panic-in-drop", msg.clone());
                }
                exec::note_panic(msg);
            }
        }
        Err(msg) => {
            // the world is leaked: its engine state is not trusted after a panic
            if msg.rsplit(" @ ").next().map_or(false, |loc| loc.starts_with("src/")) {
                panic!("symx: harness panicked: {msg}");
            }
            if cfg.mon.c04 {
                violation(&format!("C04/panic/{}", panic_site(&msg)), msg.clone());
            }
            if cfg.mon.c12 {
                // dropping handles in any order, interleaved with stabilises, never panics
                violation(&format!("C12/panic/{}", panic_site(&msg)), msg.clone());
            }
            exec::note_panic(msg);
        }
    }
}

/// C11 audit of any state (used by the expert and map harnesses too).
pub fn audit_state(state: &IncrState, after_stabilise: bool) {
    let lines = state.verif_audit(after_stabilise);
    if let Some(first) = lines.first() {
        let cat: String = first.chars().map(|c| if c.is_ascii_digit() { '#' } else { c }).collect();
        let mut cat2 = String::new();
        for ch in cat.chars() {
            if ch == '#' && cat2.ends_with('#') {
                continue;
            }
            cat2.push(ch);
        }
        let cat: String = cat2.chars().take(70).collect();
        violation(&format!("C11/{cat}"), lines.join(" | "));
    }
}

pub fn panic_site(msg: &str) -> String {
    msg.rsplit(" @ ").next().unwrap_or("?").rsplit('/').next().unwrap_or("?").to_string()
}

#[allow(dead_code)]
fn _unused(_: Cutoff<SV>) {}
