#!/bin/bash
# tools/confirm_seed.sh <worktree> <a|b> : confirms a seeded change in its scratch worktree only
# (demo passes on the clean tree, fails with the change; the existing suite passes with the change)
WT="$1"; V="$2"
export CARGO_NET_OFFLINE=true
P="$WT/SEED/$V.patch.diff"; DEMO="$WT/SEED/$V.demo.rs"; DPATH="$(cat "$WT/SEED/$V.demo.path" | tr -d '\n ')"
NAME="$(basename "$DPATH" .rs)"
cd "$WT" || exit 2
git checkout -q -- . ; git apply --check "$P" || { echo "SEED $WT $V: patch does not apply"; exit 2; }
mkdir -p "$(dirname "$DPATH")"; cp "$DEMO" "$DPATH"
PKG=""; case "$DPATH" in incremental-map/*) PKG="-p incremental-map --features im";; esac
L=/tmp/confirm-$(basename $WT)-$V
CARGO_TARGET_DIR="$WT/target" cargo test -j4 --offline $PKG --test "$NAME" >$L-clean.log 2>&1; CLEAN=$?
git apply "$P"
CARGO_TARGET_DIR="$WT/target" cargo test -j4 --offline $PKG --test "$NAME" >$L-mut.log 2>&1; MUT=$?
rm -f "$DPATH"
CARGO_TARGET_DIR="$WT/target" cargo test -j4 --workspace --no-fail-fast --offline >$L-suite.log 2>&1; SUITE=$?
git checkout -q -- .
echo "SEED confirm $(basename $WT) $V: demo on clean tree exit=$CLEAN (want 0), demo with change exit=$MUT (want !=0), existing suite with change exit=$SUITE (want 0)"
