#!/usr/bin/env python3
"""Regenerates /verif/MANIFEST.json from the table below (run by hand after editing)."""
import json, subprocess

SYMX_NOTE = ("Trusted: rustc/std, z3 4.8.12 (sampled cross-check with cvc5), the harness (scenario programs, monitors, "
             "reference evaluator in /verif/symx/src). Assumed: node functions pure (uninterpreted), values compared only with =. "
             "Bounded: history length, templates and counts are stated in the evidence; nothing is claimed outside them.")
LEVEL_TEXT = ("Bounded dynamic symbolic execution of the real, natively compiled engine: every path of the decision tree within the "
              "stated bounds is run with symbolic values; each value-dependent branch and each property assertion is decided by the "
              "SMT solver for all values of the path; counterexamples are replayed concretely before being reported. ")

claimed = {
 "C01": ("symx: observed value = from-scratch term, validity query per observer per stabilise", "5/C01"),
 "C02": ("symx: per-stabilise invocation count and argument terms vs. final input values", "5/C02"),
 "C03": ("symx: captured-lhs = current-lhs validity query per scope-node invocation; generation model for invalidity", "5/C03"),
 "C04": ("symx: every action under catch_unwind over graph/bind/garbage/late-node templates, both build profiles", "5/C04"),
 "C06": ("symx: symbolic cutoff-kind assignment, per-node last-result reference model, invocation sets compared both ways", "5/C06"),
 "C05": ("symx: invocation log vs. dependency cone of live observers", "5/C05"),
 "C07": ("symx: every observer read after every action vs. last snapshot; reads from inside node functions, bind closures, update handlers and an expert node's observability callback", "5/C07"),
 "C08": ("symx: five write operations with uninterpreted update functions; armed writes from node functions/handlers; also from an expert node's observability callback; get()/is_stable()/reader-argument validity queries", "5/C08"),
 "C12": ("symx (mostly structural): drop-counting guards and WeakIncr probes vs. reachability from live handles, all drop orders incl. the state, both profiles", "5/C12"),
 "C19": ("symx (configuration forked): height limit N, chain/bind heights around N, grow/shrink reconfiguration, cycles, foreign-state nodes, nested stabilise; both profiles", "5/C19"),
 "C20": ("symx: WeakIncr::strong_count oracle for sharing vs. re-invocation, calls from top level and from bind closures, recursive variant", "5/C20"),
 "C14": ("symx: dynamic-sum expert node with plan-driven add/remove of dependencies from a child's function; + over callback-delivered terms vs. reference sum; callback snapshot at each recompute", "5/C14"),
 "C15": ("symx: diff-based map operators x 3 map types, entries compared with the plain definition by validity query; folds in QF_UFLIA with +/-", "5/C15"),
 "C16": ("symx: per-key graph operators x 2 map types x 5 per-key function families x cutoff variants", "5/C16"),
 "C17": ("symx: user-function call log (role, key) vs. solver-decided set of differing keys", "5/C17"),
 "C18": ("Kani/CBMC bounded model checking of MergeOnce/MergeOnceWith (symbolic keys, lengths, orderings; unwinding assertions; cover witnesses) + symx over symmetric_fold of the three map types (symbolic values)", "5/C18"),
 "C13": ("symx: panic injected at a symbolic user-function invocation, caught; all-or-refuse check on every observer, refusal of further stabilise (through stabilise and stabilise_debug), drop under catch_unwind; both profiles", "5/C13"),
 "C09": ("symx: expected notification per subscription derived from the reference, solver-decided change", "5/C09"),
 "C10": ("symx (structural): lifecycle model vs. returned Results over all op vectors", "5/C10"),
 "C11": ("symx + audit hook: IncrState::verif_audit after every action (graph, bind, expert, per-key map and height-limit reconfiguration histories), both build profiles", "5/C11"),
}
not_yet = {}
props = [json.loads(l) for l in open('/verif/properties.jsonl')]
checks = []
for p in props:
    i = p['id']
    if i in claimed:
        tech, ref = claimed[i]
        checks.append({
            "property_id": i,
            "quick_cmd": f"./check {i} --tier quick",
            "thorough_cmd": f"./check {i} --tier thorough",
            "evidence_file": f"/verif/evidence/{i}.json",
            "replay_cmd_template": f"./check {i} --replay {{path}}",
            "engine": "symx" if i != "C18" else "kani+symx",
            "level_claimed": {"category": "other", "text": LEVEL_TEXT + tech, "design_ref": ref},
            "level_note": SYMX_NOTE,
            "technique": "solver-based bounded symbolic execution of the real code (symx + z3): " + tech,
        })
na = [{"property_id": p['id'], "reason": not_yet.get(p['id'], "check not built yet in this round (planned, see DESIGN.md section 5)")} for p in props if p['id'] not in claimed]
hooks_commits = subprocess.run(["git", "-C", "/repo", "log", "--format=%h %s", "--grep", "verif hook"], capture_output=True, text=True).stdout.strip().splitlines()
m = {
 "version": 1,
 "setup_cmd": "./setup.sh",
 "hooks": {
   "guard": "cormacrelf_incremental_rs_verif",
   "enable": "RUSTFLAGS=\"--cfg cormacrelf_incremental_rs_verif\" (set by ./check and ./setup.sh when building /verif/symx against /repo)",
   "baseline_off_cmd": "cd /repo && cargo test --workspace --no-fail-fast --offline",
   "source_commits": [c.split()[0] for c in hooks_commits],
   "add_only": True,
 },
 "engines": [
   {"name": "kani", "path": "/verif/kani", "serves_properties": ["C18"], "kind_free_text": "Kani 0.68 / CBMC 6.11 harnesses appended to a verbatim copy of incremental-map/src/symmetric_fold.rs in a temporary crate"},
   {"name": "symx", "path": "/verif/symx", "serves_properties": sorted(claimed), "kind_free_text": "dynamic symbolic executor: real engine instantiated at a symbolic value type, z3 over a pipe, DFS by re-execution, 16 workers, concrete replay"},
 ],
 "checks": checks,
 "not_applicable": na,
 "notes": "Exit codes of ./check: 0 held, 1 VIOLATION (reproduced concretely, replay file written), 2 tool error / inconclusive. Known findings: /verif/known-findings.json.",
}
json.dump(m, open('/verif/MANIFEST.json', 'w'), indent=1)
print("claimed", sorted(claimed), "n/a", [x['property_id'] for x in na])
