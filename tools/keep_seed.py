#!/usr/bin/env python3
"""keep_seed.py <worktree> <a|b> <seed-id> <property> <needs> <caught-by csv> <missed-by csv> : store a confirmed seeded change under /verif/seeded/<seed-id>/"""
import sys, os, shutil, json
wt, v, sid, prop, needs, caught, missed = sys.argv[1:8]
d = f"/verif/seeded/{sid}"
os.makedirs(d, exist_ok=True)
shutil.copy(f"{wt}/SEED/{v}.patch.diff", f"{d}/patch.diff")
shutil.copy(f"{wt}/SEED/{v}.demo.rs", f"{d}/demo.rs")
dpath = open(f"{wt}/SEED/{v}.demo.path").read().strip()
meta = {
  "seed_id": sid,
  "breaks_property": prop,
  "needs_to_manifest": needs,
  "demo_path_in_repo": dpath,
  "confirmed": "tools/try_seed.sh: demo passes on the clean tree, fails with the change; the existing suite (cargo test --workspace --offline) passes with the change",
  "checks_run": {"caught_by": [c for c in caught.split(',') if c], "not_caught_by": [c for c in missed.split(',') if c]},
  "how_to_rerun": f"git -C /repo apply /verif/seeded/{sid}/patch.diff && ./check <ID> --tier quick ; git -C /repo checkout -- .",
  "origin": "independent sub-agent given only the property text and a scratch worktree",
}
json.dump(meta, open(f"{d}/meta.json", "w"), indent=1)
print("kept", d)
