#!/bin/bash
# tools/private_check.sh <name> <patch.diff|-> <check ids...>
# Runs checks against a private copy of /repo (HEAD + optional patch) and of /verif (current working tree),
# so that /repo is not touched and several seeds can be tried side by side. Everything lives in /tmp/pc-<name>
# and is removed afterwards.
set -u
N="$1"; P="$2"; shift 2
R=/tmp/pc-$N-$$
rm -rf $R; mkdir -p $R
git -C /repo worktree prune
git -C /repo worktree add -q --detach $R/repo HEAD || exit 2
rsync -a --exclude .git --exclude replays --exclude evidence /verif/ $R/verif/
mkdir -p $R/verif/evidence
sed -i "s|path = \"/repo|path = \"$R/repo|g" $R/verif/symx/Cargo.toml
sed -i "s|/repo/incremental-map|$R/repo/incremental-map|g" $R/verif/kani/run_c18.py
if [ "$P" != "-" ]; then git -C $R/repo apply "$P" || { echo "patch does not apply"; git -C /repo worktree remove --force $R/repo; rm -rf $R; exit 2; }; fi
for C in "$@"; do
  OUT="$(cd $R/verif && timeout 2400 ./check "$C" --tier "${TIER:-quick}" ${EXTRA:-} 2>&1)"; RC=$?
  echo "PCHECK[$N] $C exit=$RC :: $(echo "$OUT" | grep -E '^C[0-9]+ \[' | sed 's/value_forks.*wall/wall/' | tr '\n' ' ') :: $(echo "$OUT" | grep -E '^violation|tool error|vacuous|never reached' | head -3 | cut -c1-260 | tr '\n' ';')"
done
git -C /repo worktree remove --force $R/repo; rm -rf $R
