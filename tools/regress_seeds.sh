#!/bin/bash
# Re-runs every kept seed against the checks that are recorded as catching it, on private copies
# of /verif and /repo (so /repo and /verif are not touched). Writes /verif/seeded/RESULTS.md.
set -u
R=/tmp/regress
rm -rf $R; mkdir -p $R
git -C /repo worktree prune; git -C /repo worktree add -q --detach $R/repo HEAD
rsync -a --exclude .build --exclude .git --exclude replays /verif/ $R/verif/
sed -i "s|path = \"/repo|path = \"$R/repo|g" $R/verif/symx/Cargo.toml
sed -i "s|/repo/incremental-map|$R/repo/incremental-map|g" $R/verif/kani/run_c18.py
OUT=${OUT:-/verif/seeded/RESULTS.md}
# SEEDS_GLOB: which seeds to run (shell glob on the directory name, default all)
SEEDS_GLOB=${SEEDS_GLOB:-*}
# RESUME=1: keep the rows already in $OUT.tmp (an interrupted run) and only run the missing ones
if [ -z "${RESUME:-}" ] || [ ! -f $OUT.tmp ]; then
echo "# Seed regression ($(date -u +%FT%TZ), /repo $(git -C /repo log -1 --format=%h), /verif $(git -C /verif log -1 --format=%h))" > $OUT.tmp
echo "| seed | check | exit | first violation |" >> $OUT.tmp; echo "|---|---|---|---|" >> $OUT.tmp
fi
cd $R/verif && ./setup.sh >/dev/null 2>&1
for D in /verif/seeded/$SEEDS_GLOB/; do
  S=$(basename $D); [ -f $D/meta.json ] || continue
  CHECKS=$(python3 -c "import json;m=json.load(open('$D/meta.json'));print(' '.join(c.split()[0] for c in m.get('checks_run',{}).get('caught_by',[])))")
  [ -n "$CHECKS" ] || continue
  git -C $R/repo checkout -q -- . ; git -C $R/repo apply $D/patch.diff || { echo "| $S | - | patch does not apply | |" >> $OUT.tmp; continue; }
  for C in $CHECKS; do
    grep -q "^| $S | $C | " $OUT.tmp && continue
    O=$(cd $R/verif && SYMX_STOP_ON_VIOLATION=1 timeout 1500 ./check $C --tier quick 2>&1); RC=$?
    V=$(echo "$O" | grep -E '^violation' | head -1 | cut -c1-140 | tr '|' '/')
    echo "| $S | $C | $RC | $V |" >> $OUT.tmp
  done
  git -C $R/repo checkout -q -- .
done
mv $OUT.tmp $OUT
git -C /repo worktree remove --force $R/repo; rm -rf $R
echo done
