#!/bin/bash
# tools/try_seed.sh <worktree> <a|b> <check ids...>
# 1) confirms the seeded change in the scratch worktree (suite passes, demo fails with / passes without)
# 2) applies it to /repo, runs the given checks (quick), reverts /repo
WT="$1"; V="$2"; shift 2
export CARGO_NET_OFFLINE=true
P="$WT/SEED/$V.patch.diff"; DEMO="$WT/SEED/$V.demo.rs"; DPATH="$(cat "$WT/SEED/$V.demo.path" | tr -d '\n ')"
NAME="$(basename "$DPATH" .rs)"
cd "$WT" || exit 2
git checkout -q -- . ; git apply --check "$P" || { echo "SEED: patch does not apply"; exit 2; }
if [ -z "${SKIP_CONFIRM:-}" ]; then
  mkdir -p "$(dirname "$DPATH")"; cp "$DEMO" "$DPATH"
  PKG=""; case "$DPATH" in incremental-map/*) PKG="-p incremental-map --features im";; esac
  CARGO_TARGET_DIR="$WT/target" cargo test --offline $PKG --test "$NAME" >/tmp/seed-demo-clean.log 2>&1; CLEAN=$?
  git apply "$P"
  CARGO_TARGET_DIR="$WT/target" cargo test --offline $PKG --test "$NAME" >/tmp/seed-demo-mut.log 2>&1; MUT=$?
  rm -f "$DPATH"
  CARGO_TARGET_DIR="$WT/target" cargo test --workspace --no-fail-fast --offline >/tmp/seed-suite.log 2>&1; SUITE=$?
  git checkout -q -- .
  echo "SEED confirm: demo on clean tree exit=$CLEAN (want 0), demo with change exit=$MUT (want !=0), existing suite with change exit=$SUITE (want 0)"
fi
git -C /repo apply "$P" || { echo "cannot apply to /repo"; exit 2; }
for C in "$@"; do
  OUT="$(cd /verif && timeout 1500 ./check "$C" --tier "${TIER:-quick}" 2>&1)"; RC=$?
  echo "CHECK $C exit=$RC :: $(echo "$OUT" | grep -E '^VIOLATION|^violation' | head -3 | cut -c1-260 | tr '\n' ';')"
done
git -C /repo checkout -- .
rm -rf /verif/replays
